/-
C01, token level: the tokenizer (`Model/Lexer.lean`) reads the serializer's output (`Model/Serialize.lean`) back as
exactly the element structure.

* `Lex.Run s les s'` — "the lexer produces the events `les` (with their lines) from state `s` and arrives at `s'`"
  (silent `again` steps and the deferred end of `<X/>` included); `Run.toLexAll`, `Run.lex_eof` tie it to `Lex.lexAll`.
* `tokensOf S V inMixed its` — the expected events of `serForest S V none indent inMixed its`, written from the tree
  (`tokensOfFile S V ff …` for the text written for a file `ff`; both are `tokF … []`, which carries the pending
  character run: consecutive character items of MIXED content are read back as ONE run, white-space-only runs give no
  event).
* `wfItems V its` — the lexical hypotheses: `nameOK` of every element name, no `>` in attribute names, no `<`/`>` in
  enumeration texts, `commentOK` of every comment (escaped strings and decimal numbers need no hypothesis).
* `serForest_tokens` / `serForest_tokens_file` — the main theorem (by induction over the forest, all sizes and depths);
  `lex_document` / `lex_document_file` — the corollary for a whole document (`Lex.lex`).
* `commentOK_fixComment` — every text `set_comment` can store satisfies `commentOK` (it round-trips at token level).
* `Examples` — non-vacuity (toy specification, checked by evaluation against `Lex.lex`) and the findings:
  the repaired defect c01:comment-starting-with-gt (a comment text `>` / `->x` is written as `<!-->-->` and is now read
  back as such); white-space-only values are dropped; consecutive character items are merged.
The real name tables satisfy the hypotheses about names: `Lemmas/SerLexReal.lean`.
-/
import AutosarVerif.Model.Serialize
import AutosarVerif.Model.WorldOps
import AutosarVerif.Model.ToyEnv
import AutosarVerif.Lemmas.Lexer
import AutosarVerif.Lemmas.CData

namespace AV.Lex

/-! ### a fuel-free description of what the lexer does -/

/-- the lexer produces the events `les` (line, event) from state `s` and arrives at state `s'` -/
inductive Run : LState → List (Nat × Event) → LState → Prop
  | nil (s : LState) : Run s [] s
  | deferred (rest : Bytes) (line : Nat) (nm : Bytes) (les : List (Nat × Event)) (s' : LState) :
      Run ⟨rest, line, none⟩ les s' → Run ⟨rest, line, some nm⟩ ((line, .endElement nm) :: les) s'
  | ev (s : LState) (l : Nat) (e : Event) (s1 : LState) (les : List (Nat × Event)) (s' : LState) :
      s.deferred = none → step1 s = .ev l e s1 → e ≠ .eof → Run s1 les s' → Run s ((l, e) :: les) s'
  | again (s s1 : LState) (les : List (Nat × Event)) (s' : LState) :
      s.deferred = none → step1 s = .again s1 → Run s1 les s' → Run s les s'

theorem Run.trans {s s1 s2 : LState} {a b : List (Nat × Event)} (h1 : Run s a s1) (h2 : Run s1 b s2) :
    Run s (a ++ b) s2 := by
  induction h1 with
  | nil s => simpa using h2
  | deferred rest line nm les s' _ ih => exact Run.deferred rest line nm _ _ (ih h2)
  | ev s l e s1 les s' hd hs he _ ih => exact Run.ev s l e s1 _ _ hd hs he (ih h2)
  | again s s1 les s' hd hs _ ih => exact Run.again s s1 _ _ hd hs (ih h2)

theorem Run.one {s : LState} {l : Nat} {e : Event} {s1 : LState} (hd : s.deferred = none) (hs : step1 s = .ev l e s1)
    (he : e ≠ .eof := by simp) :
    Run s [(l, e)] s1 := Run.ev s l e s1 [] s1 hd hs he (Run.nil s1)

/-- a run contains no end-of-file event -/
theorem Run.no_eof {s s' : LState} {les : List (Nat × Event)} (h : Run s les s') : ∀ p ∈ les, p.2 ≠ .eof := by
  induction h with
  | nil s => simp
  | deferred rest line nm les s' _ ih =>
    intro p hp; rcases List.mem_cons.mp hp with rfl | hp
    · simp
    · exact ih p hp
  | ev s l e s1 les s' hd hs he _ ih =>
    intro p hp; rcases List.mem_cons.mp hp with rfl | hp
    · exact he
    · exact ih p hp
  | again s s1 les s' hd hs _ ih => exact ih

theorem Run.skip {s s1 : LState} (hd : s.deferred = none) (hs : step1 s = .again s1) : Run s [] s1 :=
  Run.again s s1 [] s1 hd hs (Run.nil s1)

/-! ### `next` does not depend on the fuel once there is enough of it -/

theorem next_mono (fuel : Nat) (s : LState) (r) (h : next fuel s = some r) : next (fuel + 1) s = some r := by
  induction fuel generalizing s with
  | zero =>
    obtain ⟨rest, line, deferred⟩ := s
    cases deferred with
    | some nm => simpa [next] using h
    | none => simp [next] at h
  | succ fuel ih =>
    obtain ⟨rest, line, deferred⟩ := s
    cases deferred with
    | some nm => simpa [next] using h
    | none =>
      simp only [next] at h ⊢
      cases hs : step1 ⟨rest, line, none⟩ with
      | ev l e s' => rw [hs] at h; exact h
      | err l e s' => rw [hs] at h; exact h
      | again s' => rw [hs] at h; exact ih s' h

theorem next_mono' (fuel k : Nat) (s : LState) (r) (h : next fuel s = some r) : next (fuel + k) s = some r := by
  induction k with
  | zero => exact h
  | succ k ih => exact next_mono _ _ _ ih

theorem next_fuel_irrel (f g : Nat) (s : LState) (hf : s.rest.length < f) (hg : s.rest.length < g) :
    next f s = next g s := by
  have key : ∀ a b : Nat, s.rest.length < a → a ≤ b → next a s = next b s := by
    intro a b ha hab
    have h1 := next_isSome a s ha
    cases hn : next a s with
    | none => simp [hn] at h1
    | some r =>
      have := next_mono' a (b - a) s r hn
      rw [show a + (b - a) = b by omega] at this
      exact this.symm
  rcases Nat.le_total f g with h | h
  · exact key f g hf h
  · exact (key g f hg h).symm

theorem next_again (s s1 : LState) (hd : s.deferred = none) (hs : step1 s = .again s1) :
    next (s.rest.length + 1) s = next (s1.rest.length + 1) s1 := by
  have hp := step1_again s (s.line + countNl s.rest) (Nat.le_refl _) s1 hs
  obtain ⟨rest, line, deferred⟩ := s
  cases hd
  simp only [next, hs]
  exact next_fuel_irrel _ _ s1 hp.1 (by omega)

theorem next_ev (s : LState) (l : Nat) (e : Event) (s1 : LState) (hd : s.deferred = none) (hs : step1 s = .ev l e s1) :
    next (s.rest.length + 1) s = some (.ok (l, e), s1) := by
  obtain ⟨rest, line, deferred⟩ := s
  cases hd
  simp only [next, hs]

theorem lexAll_again (fuel : Nat) (s s1 : LState) (acc) (hd : s.deferred = none) (hs : step1 s = .again s1) :
    lexAll fuel s acc = lexAll fuel s1 acc := by
  cases fuel with
  | zero => simp [lexAll]
  | succ f => simp only [lexAll, next_again s s1 hd hs]

/-- every event of a run costs at least one unit of the measure -/
theorem Run.measure_le {s s' : LState} {les : List (Nat × Event)} (h : Run s les s') (hne : ∀ p ∈ les, p.2 ≠ .eof) :
    measure s' + les.length ≤ measure s := by
  induction h with
  | nil s => simp
  | deferred rest line nm les s' _ ih =>
    have := ih (fun p hp => hne p (List.mem_cons_of_mem _ hp))
    simp [Lex.measure] at this ⊢; omega
  | ev s l e s1 les s' hd hs _ _ ih =>
    have := ih (fun p hp => hne p (List.mem_cons_of_mem _ hp))
    have hp := step1_ev s (s.line + countNl s.rest) (Nat.le_refl _) l e s1 hs
    have he : e ≠ .eof := hne (l, e) (List.mem_cons_self ..)
    rcases hp.2.2.2.2 with h1 | h1
    · exact absurd h1 he
    · simp [Lex.measure, hd] at this h1 ⊢; omega
  | again s s1 les s' hd hs _ ih =>
    have := ih hne
    have hp := step1_again s (s.line + countNl s.rest) (Nat.le_refl _) s1 hs
    have h4 := hp.2.2.2
    rw [hd] at h4
    simp only [Lex.measure, hd, h4] at this ⊢
    simp at this ⊢
    omega

/-- a run is what `lexAll` does -/
theorem Run.toLexAll {s s' : LState} {les : List (Nat × Event)} (h : Run s les s') (hne : ∀ p ∈ les, p.2 ≠ .eof)
    (fuel : Nat) (acc : List (Nat × Event)) :
    lexAll (fuel + les.length) s acc = lexAll fuel s' (les.reverse ++ acc) := by
  induction h generalizing acc with
  | nil s => simp
  | deferred rest line nm les s' _ ih =>
    have := ih (fun p hp => hne p (List.mem_cons_of_mem _ hp)) ((line, .endElement nm) :: acc)
    simp only [List.length_cons, ← Nat.add_assoc, Lex.lexAll, next]
    rw [this]; simp
  | ev s l e s1 les s' hd hs _ _ ih =>
    have := ih (fun p hp => hne p (List.mem_cons_of_mem _ hp)) ((l, e) :: acc)
    have he : e ≠ .eof := hne (l, e) (List.mem_cons_self ..)
    simp only [List.length_cons, ← Nat.add_assoc, Lex.lexAll, next_ev s l e s1 hd hs]
    cases e with
    | eof => exact absurd rfl he
    | _ => simp only []; rw [this]; simp
  | again s s1 les s' hd hs _ ih =>
    rw [lexAll_again _ s s1 acc hd hs]
    exact ih hne acc

/-- a run that consumes the whole buffer: the token stream is the run followed by end-of-file, without error -/
theorem Run.lex_eof {s : LState} {les : List (Nat × Event)} {line : Nat} (h : Run s les ⟨[], line, none⟩)
    (fuel : Nat) (hf : measure s < fuel) :
    lexAll fuel s [] = (les ++ [(line, .eof)], none, true) := by
  have hne := h.no_eof
  have hm := h.measure_le hne
  have h1 := h.toLexAll hne (fuel - les.length) []
  rw [show fuel - les.length + les.length = fuel by omega] at h1
  rw [h1]
  have : fuel - les.length = (fuel - les.length - 1) + 1 := by omega
  rw [this]
  simp [Lex.lexAll, next, step1]

end AV.Lex

namespace AV.Lex

/-! ### single steps on the shapes of text the serializer writes -/

theorem splitAt1_append (p : UInt8 → Bool) (a : Bytes) (x : UInt8) (b : Bytes)
    (ha : ∀ c ∈ a, p c = false) (hx : p x = true) : splitAt1 p (a ++ x :: b) = some (a, b) := by
  induction a with
  | nil => simp [splitAt1, hx]
  | cons c cs ih =>
    have hc : p c = false := ha c (by simp)
    simp [splitAt1, hc, ih (fun y hy => ha y (by simp [hy]))]

theorem splitAt1_none (p : UInt8 → Bool) (a : Bytes) (ha : ∀ c ∈ a, p c = false) : splitAt1 p a = none := by
  induction a with
  | nil => simp [splitAt1]
  | cons c cs ih =>
    have hc : p c = false := ha c (by simp)
    simp [splitAt1, hc, ih (fun y hy => ha y (by simp [hy]))]

theorem countNl_append (a b : Bytes) : countNl (a ++ b) = countNl a + countNl b := by
  simp [countNl, List.countP_append]

theorem countNl_cons_ne (c : UInt8) (a : Bytes) (h : c ≠ 10) : countNl (c :: a) = countNl a := by
  simp [countNl, h]

/-- the tail of a character run: the text ends here or a tag follows -/
def TagOrEnd (tl : Bytes) : Prop := tl = [] ∨ ∃ t, tl = 60 :: t

theorem takeWhile_run (q tl : Bytes) (hq : ∀ c ∈ q, c ≠ 60) (ht : TagOrEnd tl) :
    (q ++ tl).takeWhile (· ≠ 60) = q ∧ (q ++ tl).dropWhile (· ≠ 60) = tl := by
  have h1 : ∀ a ∈ q, (decide (a ≠ 60)) = true := fun a ha => by simpa using hq a ha
  rw [List.takeWhile_append_of_pos h1, List.dropWhile_append_of_pos h1]
  rcases ht with rfl | ⟨t, rfl⟩ <;> simp

/-- the events of a character run: nothing for a white-space-only run -/
def flushL (q : Bytes) (line : Nat) : List (Nat × Event) :=
  if q.all isWs then [] else [(line + countNl q, .characters q)]

/-- a character run up to the next tag (or the end) is read as one `characters` event, or skipped if it is blank -/
theorem run_text (q tl : Bytes) (line : Nat) (hq : ∀ c ∈ q, c ≠ 60) (ht : TagOrEnd tl) :
    Run ⟨q ++ tl, line, none⟩ (flushL q line) ⟨tl, line + countNl q, none⟩ := by
  cases q with
  | nil => simpa [flushL, countNl] using Run.nil _
  | cons c q' =>
    obtain ⟨h1, h2⟩ := takeWhile_run (c :: q') tl hq ht
    have hc : c ≠ 60 := hq c (by simp)
    have hs : step1 ⟨c :: q' ++ tl, line, none⟩ = stepChars ⟨c :: q' ++ tl, line, none⟩ := by
      simp [step1, hc]
    unfold flushL
    split
    · rename_i hws
      apply Run.skip rfl
      rw [hs]; unfold stepChars
      simp only [h1, h2, hws, if_true]
    · rename_i hws
      apply Run.one rfl
      rw [hs]; unfold stepChars
      simp only [h1, h2, hws]
      simp

/-- `</name>` -/
theorem step_end (name tl : Bytes) (line : Nat) (hn : ∀ c ∈ name, c ≠ 62) :
    step1 ⟨60 :: 47 :: name ++ 62 :: tl, line, none⟩ = .ev line (.endElement name) ⟨tl, line, none⟩ := by
  have h := splitAt1_append (· = 62) (47 :: name) 62 tl
    (by intro c hc; rcases List.mem_cons.mp hc with rfl | hc
        · decide
        · simpa using hn c hc) (by decide)
  simp only [List.cons_append] at h
  simp [step1, h, stepEnd]

/-- lexical well-formedness of an element name: not empty, no white space, no `>`, does not start with `/`, `?`, `!`,
does not end in `/` -/
def nameOK (n : Bytes) : Bool :=
  n.all (fun c => !isWs c && c != 62) &&
  (match n.head? with | some c => c != 47 && c != 63 && c != 33 | none => false) &&
  n.getLast? != some 47

/-- the shape of a serialized attribute list: empty, or a blank … a quote -/
def AttrShape (a : Bytes) : Prop := a = [] ∨ ∃ r, a = 32 :: (r ++ [34])

theorem nameOK_spec (n : Bytes) (h : nameOK n = true) :
    (∀ c ∈ n, isWs c = false ∧ c ≠ 62) ∧ (∃ d nm, n = d :: nm ∧ d ≠ 47 ∧ d ≠ 63 ∧ d ≠ 33) ∧ n.getLast? ≠ some 47 := by
  simp only [nameOK, Bool.and_eq_true, List.all_eq_true, bne_iff_ne, ne_eq, Bool.not_eq_true'] at h
  obtain ⟨⟨h1, h2⟩, h3⟩ := h
  refine ⟨fun c hc => h1 c hc, ?_, h3⟩
  cases n with
  | nil => simp at h2
  | cons d nm =>
    simp only [List.head?_cons, Bool.and_eq_true, bne_iff_ne, ne_eq] at h2
    exact ⟨d, nm, rfl, h2.1.1, h2.1.2, h2.2⟩

theorem split_name_attrs (name attrs : Bytes) (hn : ∀ c ∈ name, isWs c = false) (ha : AttrShape attrs) :
    (splitAt1 isWs (name ++ attrs) = none ∧ attrs = []) ∨
    (splitAt1 isWs (name ++ attrs) = some (name, attrs.drop 1)) := by
  rcases ha with rfl | ⟨r, rfl⟩
  · left; simp [splitAt1_none isWs name hn]
  · right; rw [splitAt1_append isWs name 32 (r ++ [34]) hn (by decide)]
    simp

theorem getLast_name_attrs (name attrs : Bytes) (hl : name.getLast? ≠ some 47) (ha : AttrShape attrs) :
    (name ++ attrs).getLast? ≠ some 47 := by
  rcases ha with rfl | ⟨r, rfl⟩
  · simpa using hl
  · rw [show name ++ 32 :: (r ++ [34]) = (name ++ 32 :: r) ++ [34] by simp]
    rw [List.getLast?_concat]
    decide

theorem stepBegin_open (s : LState) (name attrs tl : Bytes) (hn : ∀ c ∈ name, isWs c = false)
    (hl : name.getLast? ≠ some 47) (ha : AttrShape attrs) :
    stepBegin s (name ++ attrs) tl =
      .ev s.line (.beginElement name (attrs.drop 1)) ⟨tl, s.line + countNl (name ++ attrs), none⟩ := by
  have hb : ((name ++ attrs).getLast? == some 47) = false := by
    simpa using getLast_name_attrs name attrs hl ha
  rcases split_name_attrs name attrs hn ha with ⟨h, rfl⟩ | h
  · simp only [List.append_nil] at h hb ⊢
    simp only [stepBegin, hb, Bool.false_eq_true, if_false, h, List.drop_nil]
  · simp only [stepBegin, hb, Bool.false_eq_true, if_false, h]

theorem stepBegin_closed (s : LState) (name attrs tl : Bytes) (hn : ∀ c ∈ name, isWs c = false) (ha : AttrShape attrs) :
    stepBegin s (name ++ attrs ++ [47]) tl =
      .ev s.line (.beginElement name (attrs.drop 1)) ⟨tl, s.line + countNl (name ++ attrs), some name⟩ := by
  have hb : ((name ++ attrs ++ [47]).getLast? == some 47) = true := by
    rw [List.getLast?_concat]; rfl
  have hdl : (name ++ attrs ++ [47]).dropLast = name ++ attrs := List.dropLast_concat
  rcases split_name_attrs name attrs hn ha with ⟨h, rfl⟩ | h
  · simp only [List.append_nil] at h hb hdl ⊢
    simp only [stepBegin, hb, if_true, hdl, h, List.drop_nil]
  · simp only [stepBegin, hb, if_true, hdl, h]

/-- a tag `<inner>` (`inner` not empty, without `>`): the dispatch of `step1` -/
theorem step1_tag (d : UInt8) (nm tl : Bytes) (line : Nat) (h : ∀ c ∈ d :: nm, c ≠ 62) :
    step1 ⟨60 :: (d :: nm ++ 62 :: tl), line, none⟩ =
      if d = 47 then stepEnd ⟨60 :: (d :: nm ++ 62 :: tl), line, none⟩ nm tl
      else if d = 63 then stepPI ⟨60 :: (d :: nm ++ 62 :: tl), line, none⟩ (d :: nm) tl
      else if d = 33 then stepComment ⟨60 :: (d :: nm ++ 62 :: tl), line, none⟩ (d :: nm).length
      else stepBegin ⟨60 :: (d :: nm ++ 62 :: tl), line, none⟩ (d :: nm) tl := by
  have h := splitAt1_append (· = 62) (d :: nm) 62 tl (by intro c hc; simpa using h c hc) (by decide)
  simp only [step1, if_true, h]

/-- `<name attrs>` -/
theorem step_begin (name attrs tl : Bytes) (line : Nat) (hn : nameOK name = true) (ha : AttrShape attrs)
    (hgt : ∀ c ∈ attrs, c ≠ 62) :
    step1 ⟨60 :: (name ++ attrs ++ 62 :: tl), line, none⟩ =
      .ev line (.beginElement name (attrs.drop 1)) ⟨tl, line + countNl (name ++ attrs), none⟩ := by
  obtain ⟨h1, ⟨d, nm, hname, hd1, hd2, hd3⟩, h3⟩ := nameOK_spec name hn
  have h62 : ∀ c ∈ name ++ attrs, c ≠ 62 := by
    intro c hc; rcases List.mem_append.mp hc with hc | hc
    · exact (h1 c hc).2
    · exact hgt c hc
  have hsb := stepBegin_open ⟨60 :: (name ++ attrs ++ 62 :: tl), line, none⟩ name attrs tl (fun c hc => (h1 c hc).1) h3 ha
  have hinner : name ++ attrs = d :: (nm ++ attrs) := by rw [hname]; rfl
  rw [hinner] at hsb h62 ⊢
  rw [step1_tag d (nm ++ attrs) tl line h62, if_neg hd1, if_neg hd2, if_neg hd3, hsb]

/-- `<name attrs/>`: the end is deferred -/
theorem step_begin_empty (name attrs tl : Bytes) (line : Nat) (hn : nameOK name = true) (ha : AttrShape attrs)
    (hgt : ∀ c ∈ attrs, c ≠ 62) :
    step1 ⟨60 :: (name ++ attrs ++ 47 :: 62 :: tl), line, none⟩ =
      .ev line (.beginElement name (attrs.drop 1)) ⟨tl, line + countNl (name ++ attrs), some name⟩ := by
  obtain ⟨h1, ⟨d, nm, hname, hd1, hd2, hd3⟩, h3⟩ := nameOK_spec name hn
  have h62 : ∀ c ∈ name ++ attrs ++ [47], c ≠ 62 := by
    intro c hc; rcases List.mem_append.mp hc with hc | hc
    · rcases List.mem_append.mp hc with hc | hc
      · exact (h1 c hc).2
      · exact hgt c hc
    · simp at hc; subst hc; decide
  have hsb := stepBegin_closed ⟨60 :: (name ++ attrs ++ 47 :: 62 :: tl), line, none⟩ name attrs tl (fun c hc => (h1 c hc).1) ha
  have hinner : name ++ attrs ++ [47] = d :: (nm ++ attrs ++ [47]) := by rw [hname]; rfl
  have hrest : name ++ attrs ++ 47 :: 62 :: tl = (name ++ attrs ++ [47]) ++ 62 :: tl := by simp
  rw [hrest] at hsb ⊢
  rw [hinner] at hsb h62 ⊢
  rw [step1_tag d (nm ++ attrs ++ [47]) tl line h62, if_neg hd1, if_neg hd2, if_neg hd3, hsb]

end AV.Lex

namespace AV.Lex

/-! ### comments -/

/-- the byte string contains `-->` -/
def hasArrow : Bytes → Bool
  | 45 :: 45 :: 62 :: _ => true
  | _ :: r => hasArrow r
  | [] => false

/-- the comment text can be written between `<!--` and `-->`: it contains no `-->` (no `-->` ends inside text `--`; a
text ending in `-` is fine: `<!--x--->` is read back as `x-`).  The lexer searches the closing `-->` no earlier than
offset 6 (repaired defect c01:comment-starting-with-gt), so a text starting with `>` or `->` is fine too. -/
def commentOK (c : Bytes) : Bool := !hasArrow (c ++ [45, 45])

theorem hasArrow_tail (a : UInt8) (l : Bytes) (h : hasArrow (a :: l) = false) : hasArrow l = false := by
  unfold hasArrow at h
  split at h
  · cases h
  · rename_i heq; cases heq; exact h
  · rename_i heq; cases heq

theorem findCommentEnd_skip (a : UInt8) (p tail : Bytes) (i frm : Nat) (h : hasArrow (a :: p ++ [45, 45]) = false) :
    findCommentEnd (a :: p ++ 45 :: 45 :: 62 :: tail) i frm = findCommentEnd (p ++ 45 :: 45 :: 62 :: tail) (i + 1) frm := by
  generalize hl : a :: p ++ 45 :: 45 :: 62 :: tail = l
  conv => lhs; unfold findCommentEnd
  split
  · rename_i r i frm
    exfalso
    simp only [List.cons_append, List.cons.injEq] at hl
    obtain ⟨rfl, hl⟩ := hl
    match p, hl, h with
    | [], hl, _ => simp at hl
    | [x], hl, _ => simp at hl
    | x :: y :: p', hl, h =>
      simp only [List.cons_append, List.cons.injEq] at hl
      obtain ⟨rfl, rfl, _⟩ := hl
      simp [hasArrow] at h
  · rename_i heq; simp only [List.cons_append] at hl; cases hl; rfl
  · cases hl

/-- below the start offset nothing is found: the search moves on -/
theorem findCommentEnd_lt (a : UInt8) (l : Bytes) (i frm : Nat) (h : i + 2 < frm) :
    findCommentEnd (a :: l) i frm = findCommentEnd l (i + 1) frm := by
  generalize hx : a :: l = x
  conv => lhs; unfold findCommentEnd
  split
  · cases hx; rw [if_neg (by omega)]
  · cases hx; rfl
  · cases hx

theorem findCommentEnd_append (pre tail : Bytes) (i frm : Nat) (h : hasArrow (pre ++ [45, 45]) = false)
    (hf : frm ≤ i + pre.length + 2) :
    findCommentEnd (pre ++ 45 :: 45 :: 62 :: tail) i frm = some (i + pre.length + 2) := by
  induction pre generalizing i with
  | nil => simp at hf; simp [findCommentEnd, hf]
  | cons a p ih =>
    rw [findCommentEnd_skip a p tail i frm h]
    rw [ih (i + 1) (hasArrow_tail a _ h) (by simp at hf; omega)]
    simp; omega

theorem splitAt1_first (p : UInt8 → Bool) (a : Bytes) (x : UInt8) (b : Bytes) (hx : p x = true) :
    ∃ a' b', splitAt1 p (a ++ x :: b) = some (a', b') ∧ a'.length ≤ a.length ∧
      (∀ d r, a = d :: r → p d = false → ∃ nm, a' = d :: nm) := by
  induction a with
  | nil => exact ⟨[], b, by simp [splitAt1, hx], by simp, by simp⟩
  | cons c cs ih =>
    obtain ⟨a', b', h1, h2, _⟩ := ih
    cases hc : p c with
    | true => exact ⟨[], cs ++ x :: b, by simp [splitAt1, hc], by simp, by intro d r hd hpd; cases hd; simp [hc] at hpd⟩
    | false =>
      refine ⟨c :: a', b', by simp [splitAt1, hc, h1], by simp; omega, ?_⟩
      intro d r hd _; cases hd; exact ⟨a', rfl⟩

/-- `<!--c-->` -/
theorem step_comment (c tl : Bytes) (line : Nat) (hc : commentOK c = true) :
    step1 ⟨60 :: 33 :: 45 :: 45 :: c ++ 45 :: 45 :: 62 :: tl, line, none⟩ =
      .ev (line + countNl c) (.comment c) ⟨tl, line + countNl c, none⟩ := by
  obtain ⟨inner, tail', hsp, hlen, hhead⟩ := splitAt1_first (· = 62) (33 :: 45 :: 45 :: c ++ [45, 45]) 62 tl (by decide)
  obtain ⟨nm, rfl⟩ := hhead 33 _ rfl (by decide)
  have hrest : (60 :: 33 :: 45 :: 45 :: c ++ 45 :: 45 :: 62 :: tl : Bytes) = 60 :: ((33 :: 45 :: 45 :: c ++ [45, 45]) ++ 62 :: tl) := by simp
  have hpre : (60 :: 33 :: 45 :: 45 :: c ++ 45 :: 45 :: 62 :: tl : Bytes) = (60 :: 33 :: 45 :: 45 :: c) ++ 45 :: 45 :: 62 :: tl := by simp
  have harrow : hasArrow (c ++ [45, 45]) = false := by
    simpa only [commentOK, Bool.not_eq_true'] using hc
  simp only [List.length_cons, List.length_append, List.length_nil] at hlen
  have hce : findCommentEnd ((60 :: 33 :: 45 :: 45 :: c) ++ 45 :: 45 :: 62 :: tl) 0 (max ((33 :: nm).length + 1) 6) =
      some (0 + (60 :: 33 :: 45 :: 45 :: c).length + 2) := by
    have h6 : 6 ≤ max ((33 :: nm).length + 1) 6 := Nat.le_max_right _ _
    have hle : max ((33 :: nm).length + 1) 6 ≤ 4 + c.length + 2 := by
      simp only [List.length_cons]; omega
    simp only [List.cons_append]
    rw [findCommentEnd_lt 60 _ 0 _ (by omega), findCommentEnd_lt 33 _ 1 _ (by omega),
      findCommentEnd_lt 45 _ 2 _ (by omega), findCommentEnd_lt 45 _ 3 _ (by omega),
      findCommentEnd_append c tl 4 _ harrow hle]
    simp only [List.length_cons]; congr 1; omega
  have htake : (60 :: 33 :: 45 :: 45 :: c ++ 45 :: 45 :: 62 :: tl : Bytes).take (c.length + 6) = 60 :: 33 :: 45 :: 45 :: (c ++ [45, 45]) := by
    rw [show (60 :: 33 :: 45 :: 45 :: c ++ 45 :: 45 :: 62 :: tl : Bytes) = (60 :: 33 :: 45 :: 45 :: (c ++ [45, 45])) ++ 62 :: tl by simp]
    rw [List.take_append_of_le_length (by simp)]
    exact List.take_of_length_le (by simp)
  have hdrop : (60 :: 33 :: 45 :: 45 :: c ++ 45 :: 45 :: 62 :: tl : Bytes).drop (c.length + 6 + 1) = tl := by
    rw [show (60 :: 33 :: 45 :: 45 :: c ++ 45 :: 45 :: 62 :: tl : Bytes) = (60 :: 33 :: 45 :: 45 :: (c ++ [45, 45, 62])) ++ tl by simp]
    exact List.drop_left' (by simp)
  rw [hrest] at hpre hce htake hdrop ⊢
  simp only [step1, if_true, hsp]
  have h47 : (33 : UInt8) ≠ 47 := by decide
  have h63 : (33 : UInt8) ≠ 63 := by decide
  simp only [h47, h63, if_false, stepComment, hce]
  simp only [Nat.zero_add, List.length_cons] at htake hdrop ⊢
  rw [show c.length + 1 + 1 + 1 + 1 + 2 = c.length + 6 by omega]
  simp only [htake, hdrop]
  have hcn : countNl (60 :: 33 :: 45 :: 45 :: (c ++ [45, 45])) = countNl c := by
    simp [countNl, List.countP_append]
  have hlen6 : ¬ (60 :: 33 :: 45 :: 45 :: (c ++ [45, 45]) : Bytes).length < 6 := by simp
  have hsw : startsWith [60, 33, 45, 45] (60 :: 33 :: 45 :: 45 :: (c ++ [45, 45])) = true := by
    simp [startsWith, List.isPrefixOf]
  have hew : endsWith [45, 45] (60 :: 33 :: 45 :: 45 :: (c ++ [45, 45])) = true := by
    simp only [endsWith, List.isSuffixOf_iff_suffix]
    exact ⟨60 :: 33 :: 45 :: 45 :: c, by simp⟩
  have htxt : ((60 :: 33 :: 45 :: 45 :: (c ++ [45, 45]) : Bytes).drop 4).dropLast.dropLast = c := by
    simp only [List.drop_succ_cons, List.drop_zero]
    rw [show c ++ [45, 45] = (c ++ [45]) ++ [45] by simp, List.dropLast_concat, List.dropLast_concat]
  simp only [hcn, hlen6, hsw, hew, htxt, Bool.not_true, Bool.false_eq_true, or_self, if_false]

end AV.Lex

namespace AV.SerLex
open AV.W AV.Lex

/-! ### the expected events, written from the tree -/

/-- the event of a character run: none for a white-space-only (or empty) run — "white-space-only values are dropped" -/
def flush (q : Bytes) : List Event := if q.all isWs then [] else [.characters q]

theorem flushL_map (q : Bytes) (line : Nat) : (flushL q line).map (·.2) = flush q := by
  unfold flushL flush; split <;> simp

section
variable (S : Spec) (V : Env)

/-- is the element with header `h` written into the text for `ff` (`none`: everything is written) -/
def visible (ff : Option Nat) (h : Hdr) : Bool :=
  match ff with
  | none => true
  | some f => h.files.isEmpty || h.files.contains f

variable (ff : Option Nat)

/-- the events of `serForest S V ff indent inMixed its` that follow a pending character run `p` (text already written
by the preceding character items of a MIXED content list: consecutive character items are read back as ONE run;
an element that is not written for `ff` does not interrupt the run) -/
def tokF (inMixed : Bool) : Items → Bytes → Option (List Event)
  | .nil, p => some (flush p)
  | .text c r, p =>
    if inMixed then
      match serVal V c with
      | some t => tokF inMixed r (p ++ t)
      | none => none
    else tokF inMixed r p
  | .elem h k r, p =>
    if !visible ff h then tokF inMixed r p else
    match serAttrs V h.attrs with
    | none => none
    | some attrs =>
      let name := V.elemText h.name
      let cm : List Event := match h.comment with
        | some c => [.comment c]
        | none => []
      let node : Option (List Event) :=
        match k with
        | .nil => some [.beginElement name (attrs.drop 1), .endElement name]
        | _ =>
          let body : Option (List Event) :=
            match S.mode h.ety.typ with
            | .characters => match k with
              | .text c _ => (serVal V c).map flush
              | _ => some []
            | .mixed => tokF true k []
            | _ => tokF false k []
          body.map fun b => [.beginElement name (attrs.drop 1)] ++ b ++ [.endElement name]
      match node, tokF inMixed r [] with
      | some n, some rest => some (flush p ++ cm ++ n ++ rest)
      | _, _ => none

/-- **the expected events of `serForest S V ff indent inMixed its`** (the text written for the file `ff`) -/
def tokensOfFile (inMixed : Bool) (its : Items) : Option (List Event) := tokF S V ff inMixed its []

/-- **the expected events of `serForest S V none indent inMixed its`** -/
def tokensOf (inMixed : Bool) (its : Items) : Option (List Event) := tokF S V none inMixed its []

/-! ### lexical well-formedness of what the tree carries -/

/-- an enumeration item's text contains neither `<` nor `>` (strings are escaped, numbers are digits) -/
def valOK : CDv → Bool
  | .enum i => (V.enumText i).all (fun c => c != 60 && c != 62)
  | _ => true

def hdrOK (h : Hdr) : Bool :=
  nameOK (V.elemText h.name) &&
  h.attrs.all (fun av => (V.attrText av.1).all (· != 62) && valOK V av.2) &&
  (match h.comment with | some c => commentOK c | none => true)

/-- **the lexical hypotheses**: every element name is a name (`nameOK`), no attribute name contains `>`, no
enumeration text contains `<` or `>`, every comment can be written between `<!--` and `-->` (`commentOK`) -/
def wfItems : Items → Bool
  | .nil => true
  | .text c r => valOK V c && wfItems r
  | .elem h k r => hdrOK V h && wfItems k && wfItems r

end

/-! ### the serialized values -/

theorem toDecAux_digits_all (fuel n : Nat) (acc : Bytes) (h : ∀ c ∈ acc, 48 ≤ c.toNat ∧ c.toNat ≤ 57) :
    ∀ c ∈ CData.toDecAux fuel n acc, 48 ≤ c.toNat ∧ c.toNat ≤ 57 := by
  induction fuel generalizing n acc with
  | zero => simpa [CData.toDecAux] using h
  | succ fuel ih =>
    have hd : (UInt8.ofNat (48 + n % 10)).toNat = 48 + n % 10 := by
      simp [UInt8.toNat_ofNat']; omega
    have hacc : ∀ c ∈ UInt8.ofNat (48 + n % 10) :: acc, 48 ≤ c.toNat ∧ c.toNat ≤ 57 := by
      intro c hc
      rcases List.mem_cons.mp hc with rfl | hc
      · rw [hd]; omega
      · exact h c hc
    simp only [CData.toDecAux]
    split
    · exact hacc
    · exact ih _ _ hacc

theorem toDec_digits (n : Nat) : ∀ c ∈ CData.toDec n, 48 ≤ c.toNat ∧ c.toNat ≤ 57 :=
  toDecAux_digits_all _ _ [] (by simp)

theorem serVal_ok (V : Env) (v : CDv) (t : Bytes) (hv : valOK V v = true) (h : serVal V v = some t) :
    ∀ c ∈ t, c ≠ 60 ∧ c ≠ 62 := by
  cases v with
  | str b =>
    simp only [serVal, Option.some.injEq] at h; subst h
    intro c hc; have := CData.escape_no_markup b c hc; exact ⟨this.1, this.2.1⟩
  | «enum» i =>
    simp only [serVal, Option.some.injEq] at h; subst h
    simp only [valOK, List.all_eq_true, Bool.and_eq_true, bne_iff_ne, ne_eq] at hv
    exact hv
  | uint n =>
    simp only [serVal, Option.some.injEq] at h; subst h
    intro c hc
    have := toDec_digits n c hc
    constructor <;> (intro h; subst h; simp at this)
  | float b => simp [serVal] at h

theorem serAttrs_ok (V : Env) (as : List (Nat × CDv)) (t : Bytes)
    (hv : as.all (fun av => (V.attrText av.1).all (· != 62) && valOK V av.2) = true) (h : serAttrs V as = some t) :
    AttrShape t ∧ ∀ c ∈ t, c ≠ 62 := by
  induction as generalizing t with
  | nil => simp only [serAttrs, Option.some.injEq] at h; subst h; exact ⟨Or.inl rfl, by simp⟩
  | cons av r ih =>
    obtain ⟨a, v⟩ := av
    simp only [List.all_cons, Bool.and_eq_true, List.all_eq_true, bne_iff_ne, ne_eq] at hv
    obtain ⟨⟨ha, hval⟩, hr⟩ := hv
    simp only [serAttrs] at h
    split at h
    · rename_i tv rest hsv hsr
      simp only [Option.some.injEq] at h; subst h
      have hrest := ih rest (by simpa [List.all_eq_true] using hr) hsr
      have htv := serVal_ok V v tv hval hsv
      constructor
      · right
        rcases hrest.1 with rfl | ⟨r', rfl⟩
        · exact ⟨V.attrText a ++ [61, 34] ++ tv, by simp⟩
        · exact ⟨V.attrText a ++ [61, 34] ++ tv ++ [34] ++ 32 :: r', by simp⟩
      · intro c hc
        simp only [List.mem_append, List.mem_cons, List.mem_nil_iff, or_false] at hc
        rcases hc with ((((rfl | hc) | (rfl | rfl)) | hc) | rfl) | hc
        · decide
        · exact ha c hc
        · decide
        · decide
        · exact (htv c hc).2
        · decide
        · exact hrest.2 c hc
    · cases h

end AV.SerLex

namespace AV.SerLex
open AV.W AV.Lex

/-! ### the serializer and the expected events, element by element -/

theorem toList_loop (b : ByteArray) (i : Nat) (r : List UInt8) :
    ByteArray.toList.loop b i r = r.reverse ++ b.data.toList.drop i := by
  have hsz : b.size = b.data.toList.length := rfl
  induction hn : b.size - i generalizing i r with
  | zero =>
    rw [ByteArray.toList.loop]
    have h : ¬ i < b.size := by omega
    have h2 : b.data.toList.length ≤ i := by omega
    rw [if_neg h, List.drop_eq_nil_of_le h2, List.append_nil]
  | succ n ih =>
    rw [ByteArray.toList.loop]
    have h : i < b.size := by omega
    have h2 : i < b.data.toList.length := by omega
    rw [if_pos h, ih (i + 1) _ (by omega), List.drop_eq_getElem_cons h2]
    have : b.get! i = b.data.toList[i] := by
      simp only [ByteArray.get!]
      have h3 : i < b.data.size := h2
      rw [getElem!_pos b.data i h3]; simp
    rw [this]; simp

/-- the bytes of a string (`ByteArray.toList` is a loop the kernel does not unfold) -/
theorem bs_eq (s : String) : bs s = s.toByteArray.data.toList := by
  unfold bs String.toUTF8 ByteArray.toList
  rw [toList_loop]; simp

theorem bs_commentOpen : bs "<!--" = [60, 33, 45, 45] := by rw [bs_eq]; decide
theorem bs_commentClose : bs "-->" = [45, 45, 62] := by rw [bs_eq]; decide

section
variable (S : Spec) (V : Env) (ff : Option Nat)

/-- the text of the content of an element with content list `k ≠ nil` and content mode `m` -/
def bodyOut (indent : Nat) (m : Mode) (k : Items) : Option Bytes :=
  match m with
  | .characters => match k with
    | .text c _ => serVal V c
    | _ => some []
  | .mixed => serForest S V ff (indent + 1) true k
  | _ => optApp (serForest S V ff (indent + 1) false k) (some (nlIndent indent))

/-- the text of one element without what precedes it (comment, line break) -/
def nodeOut (indent : Nat) (h : Hdr) (k : Items) : Option Bytes :=
  match serAttrs V h.attrs with
  | none => none
  | some attrs =>
    match k with
    | .nil => some ([60] ++ V.elemText h.name ++ attrs ++ [47, 62])
    | _ => optApp (some ([60] ++ V.elemText h.name ++ attrs ++ [62]))
        (optApp (bodyOut S V ff indent (S.mode h.ety.typ) k) (some ([60, 47] ++ V.elemText h.name ++ [62])))

/-- what is written in front of an element: its comment, and the line break + indentation (not in MIXED content) -/
def preOut (indent : Nat) (inMixed : Bool) (h : Hdr) : Bytes :=
  (match h.comment with
    | some c => (if inMixed then [] else nlIndent indent) ++ [60, 33, 45, 45] ++ c ++ [45, 45, 62]
    | none => []) ++ (if inMixed then [] else nlIndent indent)

theorem serForest_elem_vis (indent : Nat) (inMixed : Bool) (h : Hdr) (k r : Items) :
    serForest S V ff indent inMixed (.elem h k r) =
      if visible ff h then
        optApp (some (preOut indent inMixed h)) (optApp (nodeOut S V ff indent h k) (serForest S V ff indent inMixed r))
      else serForest S V ff indent inMixed r := by
  cases ff with
  | none => cases k <;> (conv => lhs; unfold serForest) <;> simp only [bs_commentOpen, bs_commentClose] <;> rfl
  | some f =>
    cases hv : (h.files.isEmpty || h.files.contains f) <;> cases k <;>
      (conv => lhs; unfold serForest) <;> simp only [visible, hv, bs_commentOpen, bs_commentClose] <;> rfl

end

end AV.SerLex

namespace AV.SerLex
open AV.W AV.Lex

section
variable (S : Spec) (V : Env) (ff : Option Nat)

/-- the events of the content of an element with content list `k ≠ nil` and content mode `m` -/
def bodyTok (m : Mode) (k : Items) : Option (List Event) :=
  match m with
  | .characters => match k with
    | .text c _ => (serVal V c).map flush
    | _ => some []
  | .mixed => tokF S V ff true k []
  | _ => tokF S V ff false k []

/-- the events of one element without its comment -/
def nodeTok (h : Hdr) (k : Items) : Option (List Event) :=
  match serAttrs V h.attrs with
  | none => none
  | some attrs =>
    match k with
    | .nil => some [.beginElement (V.elemText h.name) (attrs.drop 1), .endElement (V.elemText h.name)]
    | _ => (bodyTok S V ff (S.mode h.ety.typ) k).map fun b =>
        [.beginElement (V.elemText h.name) (attrs.drop 1)] ++ b ++ [.endElement (V.elemText h.name)]

def cmTok (h : Hdr) : List Event :=
  match h.comment with
  | some c => [.comment c]
  | none => []

theorem tokF_elem (inMixed : Bool) (h : Hdr) (k r : Items) (p : Bytes) :
    tokF S V ff inMixed (.elem h k r) p =
      if visible ff h then
        match nodeTok S V ff h k, tokF S V ff inMixed r [] with
        | some n, some rest => some (flush p ++ cmTok h ++ n ++ rest)
        | _, _ => none
      else tokF S V ff inMixed r p := by
  cases hv : visible ff h <;> cases k <;> (conv => lhs; unfold tokF) <;> simp only [hv] <;> unfold nodeTok <;>
    cases serAttrs V h.attrs <;> rfl

theorem nodeOut_nil (indent : Nat) (h : Hdr) :
    nodeOut S V ff indent h .nil = (serAttrs V h.attrs).map fun attrs => [60] ++ V.elemText h.name ++ attrs ++ [47, 62] := by
  unfold nodeOut; cases serAttrs V h.attrs <;> rfl

theorem nodeTok_nil (h : Hdr) :
    nodeTok S V ff h .nil = (serAttrs V h.attrs).map fun attrs =>
      [.beginElement (V.elemText h.name) (attrs.drop 1), .endElement (V.elemText h.name)] := by
  unfold nodeTok; cases serAttrs V h.attrs <;> rfl

theorem nodeOut_cons (indent : Nat) (h : Hdr) (k : Items) (hk : k ≠ .nil) :
    nodeOut S V ff indent h k =
      match serAttrs V h.attrs with
      | none => none
      | some attrs => optApp (some ([60] ++ V.elemText h.name ++ attrs ++ [62]))
        (optApp (bodyOut S V ff indent (S.mode h.ety.typ) k) (some ([60, 47] ++ V.elemText h.name ++ [62]))) := by
  cases k with
  | nil => exact absurd rfl hk
  | _ => rfl

theorem nodeTok_cons (h : Hdr) (k : Items) (hk : k ≠ .nil) :
    nodeTok S V ff h k =
      match serAttrs V h.attrs with
      | none => none
      | some attrs => (bodyTok S V ff (S.mode h.ety.typ) k).map fun b =>
        [.beginElement (V.elemText h.name) (attrs.drop 1)] ++ b ++ [.endElement (V.elemText h.name)] := by
  cases k with
  | nil => exact absurd rfl hk
  | _ => rfl

end

theorem optApp_some (a b : Option Bytes) (x : Bytes) (h : optApp a b = some x) :
    ∃ y z, a = some y ∧ b = some z ∧ x = y ++ z := by
  unfold optApp at h
  split at h
  · simp only [Option.some.injEq] at h; exact ⟨_, _, rfl, rfl, h.symm⟩
  · cases h

theorem nlIndent_ws (n : Nat) : (nlIndent n).all isWs = true := by
  simp only [nlIndent, List.all_cons, List.all_replicate]
  simp [isWs]

theorem nlIndent_no60 (n : Nat) : ∀ c ∈ nlIndent n, c ≠ 60 := by
  intro c hc
  simp only [nlIndent, List.mem_cons, List.mem_replicate] at hc
  rcases hc with rfl | ⟨_, rfl⟩ <;> decide

theorem flushL_ws (q : Bytes) (line : Nat) (h : q.all isWs = true) : flushL q line = [] := by
  simp [flushL, h]

theorem flush_ws (q : Bytes) (h : q.all isWs = true) : flush q = [] := by
  simp [flush, h]

theorem countNl_name (n : Bytes) (h : ∀ c ∈ n, isWs c = false) : countNl n = 0 := by
  simp only [countNl, List.countP_eq_zero]
  intro c hc h10
  have := h c hc
  simp at h10; subst h10
  simp [isWs] at this

/-- the tail condition of the main theorem: after MIXED content a tag follows or the text ends -/
def TailOK (inMixed : Bool) (tl : Bytes) : Prop := inMixed = false ∨ TagOrEnd tl

/-- the statement proved by induction over the forest -/
def ForestOK (S : Spec) (V : Env) (ff : Option Nat) (its : Items) : Prop :=
  ∀ (inMixed : Bool) (indent : Nat) (p bytes : Bytes),
    serForest S V ff indent inMixed its = some bytes → (∀ c ∈ p, c ≠ 60) → (inMixed = false → p = []) →
    ∃ toks, tokF S V ff inMixed its p = some toks ∧
      ∀ (tl : Bytes) (line : Nat), TailOK inMixed tl →
        ∃ les : List (Nat × Event), les.map (·.2) = toks ∧
          Run ⟨p ++ bytes ++ tl, line, none⟩ les ⟨tl, line + countNl (p ++ bytes), none⟩

end AV.SerLex

namespace AV.SerLex
open AV.W AV.Lex

section
variable (S : Spec) (V : Env) (ff : Option Nat)

theorem body_run (indent : Nat) (m : Mode) (k : Items) (bb : Bytes) (ihk : ForestOK S V ff k)
    (hwf : wfItems V k = true) (hb : bodyOut S V ff indent m k = some bb) :
    ∃ btoks, bodyTok S V ff m k = some btoks ∧
      ∀ (X : Bytes) (line : Nat), ∃ les : List (Nat × Event), les.map (·.2) = btoks ∧
        Run ⟨bb ++ 60 :: X, line, none⟩ les ⟨60 :: X, line + countNl bb, none⟩ := by
  have hmixed : serForest S V ff (indent + 1) true k = some bb →
      ∃ btoks, tokF S V ff true k [] = some btoks ∧
      ∀ (X : Bytes) (line : Nat), ∃ les : List (Nat × Event), les.map (·.2) = btoks ∧
        Run ⟨bb ++ 60 :: X, line, none⟩ les ⟨60 :: X, line + countNl bb, none⟩ := by
    intro hb
    obtain ⟨toks, ht, hrun⟩ := ihk true (indent + 1) [] bb hb (by simp) (by simp)
    refine ⟨toks, ht, fun X line => ?_⟩
    obtain ⟨les, h1, h2⟩ := hrun (60 :: X) line (Or.inr (Or.inr ⟨X, rfl⟩))
    exact ⟨les, h1, by simpa using h2⟩
  have hother : optApp (serForest S V ff (indent + 1) false k) (some (nlIndent indent)) = some bb →
      ∃ btoks, tokF S V ff false k [] = some btoks ∧
      ∀ (X : Bytes) (line : Nat), ∃ les : List (Nat × Event), les.map (·.2) = btoks ∧
        Run ⟨bb ++ 60 :: X, line, none⟩ les ⟨60 :: X, line + countNl bb, none⟩ := by
    intro hb
    obtain ⟨fb, z, hfb, hz, rfl⟩ := optApp_some _ _ _ hb
    cases hz
    obtain ⟨toks, ht, hrun⟩ := ihk false (indent + 1) [] fb hfb (by simp) (by simp)
    refine ⟨toks, ht, fun X line => ?_⟩
    obtain ⟨les, h1, h2⟩ := hrun (nlIndent indent ++ 60 :: X) line (Or.inl rfl)
    have h3 := run_text (nlIndent indent) (60 :: X) (line + countNl fb) (nlIndent_no60 indent) (Or.inr ⟨X, rfl⟩)
    rw [flushL_ws _ _ (nlIndent_ws indent)] at h3
    refine ⟨les, h1, ?_⟩
    have h4 := Run.trans h2 h3
    simpa [countNl_append, Nat.add_assoc] using h4
  cases m with
  | characters =>
    cases k with
    | text c r =>
      simp only [bodyOut] at hb
      simp only [wfItems, Bool.and_eq_true] at hwf
      have hok := serVal_ok V c bb hwf.1 hb
      refine ⟨flush bb, by simp [bodyTok, hb], fun X line => ?_⟩
      exact ⟨flushL bb line, flushL_map bb line,
        run_text bb (60 :: X) line (fun c hc => (hok c hc).1) (Or.inr ⟨X, rfl⟩)⟩
    | nil =>
      simp only [bodyOut, Option.some.injEq] at hb; subst hb
      exact ⟨[], by simp [bodyTok], fun X line => ⟨[], rfl, by simpa [countNl] using Run.nil _⟩⟩
    | elem h' k' r =>
      simp only [bodyOut, Option.some.injEq] at hb; subst hb
      exact ⟨[], by simp [bodyTok], fun X line => ⟨[], rfl, by simpa [countNl] using Run.nil _⟩⟩
  | mixed => exact hmixed hb
  | sequence => exact hother hb
  | choice => exact hother hb
  | bag => exact hother hb

end

end AV.SerLex

namespace AV.SerLex
open AV.W AV.Lex

section
variable (S : Spec) (V : Env) (ff : Option Nat)

theorem node_run (indent : Nat) (h : Hdr) (k : Items) (nb : Bytes) (ihk : ForestOK S V ff k)
    (hh : hdrOK V h = true) (hwf : wfItems V k = true) (hn : nodeOut S V ff indent h k = some nb) :
    ∃ ntoks, nodeTok S V ff h k = some ntoks ∧ (∃ nb', nb = 60 :: nb') ∧
      ∀ (tl : Bytes) (line : Nat), ∃ les : List (Nat × Event), les.map (·.2) = ntoks ∧
        Run ⟨nb ++ tl, line, none⟩ les ⟨tl, line + countNl nb, none⟩ := by
  simp only [hdrOK, Bool.and_eq_true] at hh
  obtain ⟨⟨hname, hattrs⟩, _⟩ := hh
  obtain ⟨hn1, _, _⟩ := nameOK_spec _ hname
  have hnl : countNl (V.elemText h.name) = 0 := countNl_name _ (fun c hc => (hn1 c hc).1)
  by_cases hk : k = .nil
  · subst hk
    rw [nodeOut_nil] at hn
    rw [nodeTok_nil]
    cases hsa : serAttrs V h.attrs with
    | none => simp [hsa] at hn
    | some attrs =>
      simp only [hsa, Option.map_some, Option.some.injEq] at hn ⊢
      subst hn
      obtain ⟨hshape, hgt⟩ := serAttrs_ok V h.attrs attrs hattrs hsa
      refine ⟨_, rfl, ⟨_, rfl⟩, fun tl line => ?_⟩
      have hs := step_begin_empty (V.elemText h.name) attrs tl line hname hshape hgt
      refine ⟨[(line, .beginElement (V.elemText h.name) (attrs.drop 1)),
        (line + countNl (V.elemText h.name ++ attrs), .endElement (V.elemText h.name))], rfl, ?_⟩
      have hrest : [60] ++ V.elemText h.name ++ attrs ++ [47, 62] ++ tl =
          60 :: (V.elemText h.name ++ attrs ++ 47 :: 62 :: tl) := by simp
      have hcn : countNl ([60] ++ V.elemText h.name ++ attrs ++ [47, 62]) = countNl (V.elemText h.name ++ attrs) := by
        simp [countNl, List.countP_append]
      rw [hrest, hcn]
      exact Run.ev _ _ _ _ _ _ rfl hs (by simp) (Run.deferred _ _ _ _ _ (Run.nil _))
  · rw [nodeOut_cons S V ff indent h k hk] at hn
    rw [nodeTok_cons S V ff h k hk]
    cases hsa : serAttrs V h.attrs with
    | none => simp [hsa] at hn
    | some attrs =>
      simp only [hsa] at hn ⊢
      obtain ⟨hshape, hgt⟩ := serAttrs_ok V h.attrs attrs hattrs hsa
      obtain ⟨y, z, hy, hz, rfl⟩ := optApp_some _ _ _ hn
      cases hy
      obtain ⟨bb, cl, hbb, hcl, rfl⟩ := optApp_some _ _ _ hz
      cases hcl
      obtain ⟨btoks, hbt, hbrun⟩ := body_run S V ff indent _ k bb ihk hwf hbb
      refine ⟨_, by rw [hbt]; rfl, ⟨_, rfl⟩, fun tl line => ?_⟩
      have hs := step_begin (V.elemText h.name) attrs (bb ++ 60 :: 47 :: V.elemText h.name ++ 62 :: tl) line hname hshape hgt
      obtain ⟨bles, hb1, hb2⟩ := hbrun (47 :: V.elemText h.name ++ 62 :: tl) (line + countNl (V.elemText h.name ++ attrs))
      have he := step_end (V.elemText h.name) tl (line + countNl (V.elemText h.name ++ attrs) + countNl bb)
        (fun c hc => (hn1 c hc).2)
      refine ⟨(line, .beginElement (V.elemText h.name) (attrs.drop 1)) :: (bles ++
        [(line + countNl (V.elemText h.name ++ attrs) + countNl bb, .endElement (V.elemText h.name))]), ?_, ?_⟩
      · simp [hb1]
      · have hrest : [60] ++ V.elemText h.name ++ attrs ++ [62] ++ (bb ++ ([60, 47] ++ V.elemText h.name ++ [62])) ++ tl =
            60 :: (V.elemText h.name ++ attrs ++ 62 :: (bb ++ 60 :: 47 :: V.elemText h.name ++ 62 :: tl)) := by simp
        have hcn : countNl ([60] ++ V.elemText h.name ++ attrs ++ [62] ++ (bb ++ ([60, 47] ++ V.elemText h.name ++ [62]))) =
            countNl (V.elemText h.name ++ attrs) + countNl bb := by
          have h0 : List.countP (fun x => decide (x = 10)) (V.elemText h.name) = 0 := hnl
          simp [countNl, List.countP_append, h0]
        rw [hrest, hcn, ← Nat.add_assoc]
        refine Run.ev _ _ _ _ _ _ rfl hs (by simp) (Run.trans ?_ (Run.one rfl he))
        simpa using hb2

end

end AV.SerLex

namespace AV.SerLex
open AV.W AV.Lex

theorem pre_run (indent : Nat) (inMixed : Bool) (h : Hdr) (p X : Bytes) (line : Nat)
    (hc : (match h.comment with | some c => commentOK c | none => true) = true)
    (hp : ∀ c ∈ p, c ≠ 60) (hpm : inMixed = false → p = []) :
    ∃ les : List (Nat × Event), les.map (·.2) = flush p ++ cmTok h ∧
      Run ⟨p ++ preOut indent inMixed h ++ 60 :: X, line, none⟩ les
        ⟨60 :: X, line + countNl (p ++ preOut indent inMixed h), none⟩ := by
  obtain ⟨L, hLeq, hL60, hLws, hfl⟩ : ∃ L : Bytes, (if inMixed then [] else nlIndent indent) = L ∧
      (∀ c ∈ L, c ≠ 60) ∧ L.all isWs = true ∧ flush (p ++ L) = flush p := by
    cases inMixed with
    | true => exact ⟨[], rfl, by simp, rfl, by simp⟩
    | false =>
      rw [hpm rfl]
      exact ⟨nlIndent indent, rfl, nlIndent_no60 indent, nlIndent_ws indent, by
        rw [List.nil_append, flush_ws _ (nlIndent_ws indent), flush_ws [] rfl]⟩
  have hq : ∀ c ∈ p ++ L, c ≠ 60 := by
    intro c hc; rcases List.mem_append.mp hc with hc | hc
    · exact hp c hc
    · exact hL60 c hc
  unfold preOut cmTok
  rw [hLeq]
  cases hcm : h.comment with
  | none =>
    simp only [List.nil_append, List.append_nil]
    have := run_text (p ++ L) (60 :: X) line hq (Or.inr ⟨X, rfl⟩)
    exact ⟨flushL (p ++ L) line, by rw [flushL_map, hfl], this⟩
  | some c =>
    simp only [hcm] at hc
    have h1 := run_text (p ++ L) (60 :: 33 :: 45 :: 45 :: c ++ 45 :: 45 :: 62 :: (L ++ 60 :: X)) line hq (Or.inr ⟨_, rfl⟩)
    have h2 := step_comment c (L ++ 60 :: X) (line + countNl (p ++ L)) hc
    have h3 := run_text L (60 :: X) (line + countNl (p ++ L) + countNl c) hL60 (Or.inr ⟨X, rfl⟩)
    rw [flushL_ws _ _ hLws] at h3
    have h4 := Run.trans h1 (Run.trans (Run.one rfl h2) h3)
    refine ⟨flushL (p ++ L) line ++ ([(line + countNl (p ++ L) + countNl c, Event.comment c)] ++ []), ?_, ?_⟩
    rotate_left
    · have hrest : p ++ (L ++ [60, 33, 45, 45] ++ c ++ [45, 45, 62] ++ L) ++ 60 :: X =
          p ++ L ++ (60 :: 33 :: 45 :: 45 :: c ++ 45 :: 45 :: 62 :: (L ++ 60 :: X)) := by simp
      have hcn : countNl (p ++ (L ++ [60, 33, 45, 45] ++ c ++ [45, 45, 62] ++ L)) =
          countNl (p ++ L) + countNl c + countNl L := by
        simp [countNl, List.countP_append]; omega
      rw [hrest, hcn, ← Nat.add_assoc, ← Nat.add_assoc]
      exact h4
    · simp [flushL_map, hfl]

/-- **main induction**: under the lexical hypotheses the lexer reads the text of a forest back as `tokF` -/
theorem forestOK (S : Spec) (V : Env) (ff : Option Nat) (its : Items) : wfItems V its = true → ForestOK S V ff its := by
  induction its with
  | nil =>
    intro _ inMixed indent p bytes hser hp hpm
    simp only [serForest, Option.some.injEq] at hser; subst hser
    refine ⟨flush p, by simp [tokF], fun tl line htl => ⟨flushL p line, flushL_map _ _, ?_⟩⟩
    simp only [List.append_nil]
    rcases htl with hm | htl
    · rw [hpm hm]; simpa [flushL, countNl] using Run.nil _
    · exact run_text p tl line hp htl
  | text c r ih =>
    intro hwf inMixed indent p bytes hser hp hpm
    simp only [wfItems, Bool.and_eq_true] at hwf
    cases inMixed with
    | false =>
      simp only [serForest, Bool.false_eq_true, if_false] at hser
      obtain ⟨toks, ht, hrun⟩ := ih hwf.2 false indent p bytes hser hp hpm
      exact ⟨toks, by simpa [tokF] using ht, hrun⟩
    | true =>
      simp only [serForest, if_true] at hser
      obtain ⟨t, rb, ht, hrb, rfl⟩ := optApp_some _ _ _ hser
      have hok := serVal_ok V c t hwf.1 ht
      have hp' : ∀ x ∈ p ++ t, x ≠ 60 := by
        intro x hx; rcases List.mem_append.mp hx with hx | hx
        · exact hp x hx
        · exact (hok x hx).1
      obtain ⟨toks, htk, hrun⟩ := ih hwf.2 true indent (p ++ t) rb hrb hp' (by simp)
      refine ⟨toks, by simpa [tokF, ht] using htk, fun tl line htl => ?_⟩
      obtain ⟨les, h1, h2⟩ := hrun tl line htl
      exact ⟨les, h1, by simpa [List.append_assoc] using h2⟩
  | elem h k r ihk ihr =>
    intro hwf inMixed indent p bytes hser hp hpm
    simp only [wfItems, Bool.and_eq_true] at hwf
    obtain ⟨⟨hh, hwk⟩, hwr⟩ := hwf
    have hc : (match h.comment with | some c => commentOK c | none => true) = true := by
      simp only [hdrOK, Bool.and_eq_true] at hh; exact hh.2
    rw [serForest_elem_vis] at hser
    cases hv : visible ff h with
    | false =>
      simp only [hv, Bool.false_eq_true, if_false] at hser
      obtain ⟨toks, ht, hrun⟩ := ihr hwr inMixed indent p bytes hser hp hpm
      exact ⟨toks, by rw [tokF_elem, hv]; simpa using ht, hrun⟩
    | true =>
    simp only [hv, if_true] at hser
    obtain ⟨pre, z, hpre, hz, rfl⟩ := optApp_some _ _ _ hser
    cases hpre
    obtain ⟨nb, rb, hnb, hrb, rfl⟩ := optApp_some _ _ _ hz
    obtain ⟨ntoks, hnt, ⟨nb', hnb'⟩, hnrun⟩ := node_run S V ff indent h k nb (ihk hwk) hh hwk hnb
    subst hnb'
    obtain ⟨rtoks, hrt, hrrun⟩ := ihr hwr inMixed indent [] rb hrb (by simp) (by simp)
    refine ⟨flush p ++ cmTok h ++ ntoks ++ rtoks, by rw [tokF_elem, hv, hnt, hrt]; rfl, fun tl line htl => ?_⟩
    obtain ⟨l1, h1a, h1b⟩ := pre_run indent inMixed h p (nb' ++ rb ++ tl) line hc hp hpm
    obtain ⟨l2, h2a, h2b⟩ := hnrun (rb ++ tl) (line + countNl (p ++ preOut indent inMixed h))
    obtain ⟨l3, h3a, h3b⟩ := hrrun tl (line + countNl (p ++ preOut indent inMixed h) + countNl (60 :: nb')) htl
    refine ⟨l1 ++ l2 ++ l3, by simp [h1a, h2a, h3a], ?_⟩
    have hrest : p ++ (preOut indent inMixed h ++ (60 :: nb' ++ rb)) ++ tl =
        p ++ preOut indent inMixed h ++ 60 :: (nb' ++ rb ++ tl) := by simp
    have hcn : countNl (p ++ (preOut indent inMixed h ++ (60 :: nb' ++ rb))) =
        countNl (p ++ preOut indent inMixed h) + countNl (60 :: nb') + countNl ([] ++ rb) := by
      have e1 : countNl (60 :: (nb' ++ rb)) = countNl (60 :: nb') + countNl rb := countNl_append (60 :: nb') rb
      simp only [countNl_append, List.nil_append, List.cons_append, e1]
      omega
    rw [hrest, hcn, ← Nat.add_assoc, ← Nat.add_assoc]
    refine Run.trans (Run.trans h1b ?_) (by simpa using h3b)
    simpa using h2b

end AV.SerLex

namespace AV.SerLex
open AV.W AV.Lex

/-- **C01, token level — main theorem** (for the text written for a file `ff`; `ff = none`: everything is written).
For every forest that satisfies the lexical hypotheses `wfItems` and that the serializer can write
(`serForest … = some bytes`, i.e. no float value): the expected events `tokensOfFile` exist, and for every continuation
`tl` (after MIXED content: one that starts with `<` or is empty), from any line, the lexer started on `bytes ++ tl`
produces exactly these events (`les` = the events with their line numbers) and arrives at `tl`, the line advanced by the
number of line breaks of `bytes`, no end of an empty-element tag pending. -/
theorem serForest_tokens_file (S : Spec) (V : Env) (ff : Option Nat) (its : Items) (inMixed : Bool) (indent : Nat)
    (bytes : Bytes) (hwf : wfItems V its = true) (hser : serForest S V ff indent inMixed its = some bytes) :
    ∃ toks, tokensOfFile S V ff inMixed its = some toks ∧
      ∀ (tl : Bytes) (line : Nat), TailOK inMixed tl →
        ∃ les : List (Nat × Event), les.map (·.2) = toks ∧
          Run ⟨bytes ++ tl, line, none⟩ les ⟨tl, line + countNl bytes, none⟩ := by
  obtain ⟨toks, ht, hrun⟩ := forestOK S V ff its hwf inMixed indent [] bytes hser (by simp) (by simp)
  exact ⟨toks, ht, fun tl line htl => by simpa using hrun tl line htl⟩

/-- **C01, token level — main theorem**, the whole forest (`serForest S V none`) -/
theorem serForest_tokens (S : Spec) (V : Env) (its : Items) (inMixed : Bool) (indent : Nat) (bytes : Bytes)
    (hwf : wfItems V its = true) (hser : serForest S V none indent inMixed its = some bytes) :
    ∃ toks, tokensOf S V inMixed its = some toks ∧
      ∀ (tl : Bytes) (line : Nat), TailOK inMixed tl →
        ∃ les : List (Nat × Event), les.map (·.2) = toks ∧
          Run ⟨bytes ++ tl, line, none⟩ les ⟨tl, line + countNl bytes, none⟩ :=
  serForest_tokens_file S V none its inMixed indent bytes hwf hser

/-- the serializer writes a forest only if the expected events are defined (no float value in what is written) -/
theorem serForest_isSome_tokensOf (S : Spec) (V : Env) (ff : Option Nat) (its : Items) (inMixed : Bool) (indent : Nat)
    (bytes : Bytes) (hwf : wfItems V its = true) (hser : serForest S V ff indent inMixed its = some bytes) :
    (tokensOfFile S V ff inMixed its).isSome = true := by
  obtain ⟨toks, ht, _⟩ := serForest_tokens_file S V ff its inMixed indent bytes hwf hser
  simp [ht]

/-! ### a whole document -/

/-- the xml declaration between `<?` and `>` -/
def xmlDeclBody : Option Bool → Bytes
  | none => [120, 109, 108, 32, 118, 101, 114, 115, 105, 111, 110, 61, 34, 49, 46, 48, 34, 32, 101, 110, 99, 111,
      100, 105, 110, 103, 61, 34, 117, 116, 102, 45, 56, 34, 63]
  | some true => [120, 109, 108, 32, 118, 101, 114, 115, 105, 111, 110, 61, 34, 49, 46, 48, 34, 32, 101, 110, 99,
      111, 100, 105, 110, 103, 61, 34, 117, 116, 102, 45, 56, 34, 32, 115, 116, 97, 110, 100, 97, 108, 111, 110, 101, 61,
      34, 121, 101, 115, 34, 63]
  | some false => [120, 109, 108, 32, 118, 101, 114, 115, 105, 111, 110, 61, 34, 49, 46, 48, 34, 32, 101, 110, 99,
      111, 100, 105, 110, 103, 61, 34, 117, 116, 102, 45, 56, 34, 32, 115, 116, 97, 110, 100, 97, 108, 111, 110, 101, 61,
      34, 110, 111, 34, 63]

/-- the xml declaration `ArxmlFile::serialize` writes (`standalone` as the file was loaded) -/
def xmlDecl (sa : Option Bool) : Bytes := 60 :: 63 :: xmlDeclBody sa ++ [62]

/-- `xmlDecl` is the text in `opSerialize` -/
theorem xmlDecl_eq (sa : Option Bool) : xmlDecl sa = match sa with
    | some true => bs "<?xml version=\"1.0\" encoding=\"utf-8\" standalone=\"yes\"?>"
    | some false => bs "<?xml version=\"1.0\" encoding=\"utf-8\" standalone=\"no\"?>"
    | none => bs "<?xml version=\"1.0\" encoding=\"utf-8\"?>" := by
  rcases sa with _ | _ | _ <;> simp only [bs_eq] <;> decide

theorem stepPI_header (s : LState) (inner tl : Bytes) (sa : Option Bool)
    (h1 : ¬(inner.length < 2 ∨ inner.getLast? ≠ some 63))
    (h2 : xmlHeader ((inner.drop 1).dropLast) = some (.ok (.header sa)))
    (h3 : countNl ((inner.drop 1).dropLast) = 0) :
    stepPI s inner tl = .ev s.line (.header sa) { s with rest := tl } := by
  unfold stepPI
  rw [if_neg h1]
  simp only [h2, h3, Nat.add_zero]

theorem step_xmlDecl (sa : Option Bool) (tl : Bytes) (line : Nat) :
    step1 ⟨xmlDecl sa ++ tl, line, none⟩ = .ev line (.header sa) ⟨tl, line, none⟩ := by
  have hrest : xmlDecl sa ++ tl = 60 :: (63 :: xmlDeclBody sa ++ 62 :: tl) := by simp [xmlDecl]
  rw [hrest, step1_tag 63 (xmlDeclBody sa) tl line (by rcases sa with _ | _ | _ <;> decide),
    if_neg (by decide), if_pos rfl]
  exact stepPI_header _ _ tl _ (by rcases sa with _ | _ | _ <;> decide) (by rcases sa with _ | _ | _ <;> rfl)
    (by rcases sa with _ | _ | _ <;> decide)

theorem init_xmlDecl (sa : Option Bool) (tl : Bytes) : init (xmlDecl sa ++ tl) = ⟨xmlDecl sa ++ tl, 1, none⟩ := by
  rcases sa with _ | _ | _ <;> rfl

/-- **C01, token level — a whole document** (the text `ArxmlFile::serialize` writes for the file `ff`).  The lexer reads
the xml declaration followed by the serializer's text of the root forest as: the `header` event, exactly the expected
events of the forest, end-of-file; no lexer error, within the fuel. -/
theorem lex_document_file (S : Spec) (V : Env) (ff : Option Nat) (sa : Option Bool) (root : Items) (bytes : Bytes)
    (hwf : wfItems V root = true) (hser : serForest S V ff 0 false root = some bytes) :
    ∃ toks, tokensOfFile S V ff false root = some toks ∧
      (Lex.lex (xmlDecl sa ++ bytes)).1.map (·.2) = .header sa :: toks ++ [.eof] ∧
      (Lex.lex (xmlDecl sa ++ bytes)).2.1 = none ∧ (Lex.lex (xmlDecl sa ++ bytes)).2.2 = true := by
  obtain ⟨toks, ht, hrun⟩ := serForest_tokens_file S V ff root false 0 bytes hwf hser
  obtain ⟨les, hl, hr⟩ := hrun [] 1 (Or.inl rfl)
  refine ⟨toks, ht, ?_⟩
  have h1 : Run ⟨xmlDecl sa ++ bytes, 1, none⟩ ((1, .header sa) :: les) ⟨[], 1 + countNl bytes, none⟩ :=
    Run.ev _ _ _ _ _ _ rfl (step_xmlDecl sa bytes 1) (by simp) (by simpa using hr)
  have hm := measure_le ⟨xmlDecl sa ++ bytes, 1, none⟩
  have h2 := h1.lex_eof (2 * (xmlDecl sa ++ bytes).length + 4) (by simp only at hm; omega)
  unfold Lex.lex
  rw [init_xmlDecl, h2]
  simp [hl]

/-- **C01, token level — a whole document**, everything written (`serForest S V none`) -/
theorem lex_document (S : Spec) (V : Env) (sa : Option Bool) (root : Items) (bytes : Bytes)
    (hwf : wfItems V root = true) (hser : serForest S V none 0 false root = some bytes) :
    ∃ toks, tokensOf S V false root = some toks ∧
      (Lex.lex (xmlDecl sa ++ bytes)).1.map (·.2) = .header sa :: toks ++ [.eof] ∧
      (Lex.lex (xmlDecl sa ++ bytes)).2.1 = none ∧ (Lex.lex (xmlDecl sa ++ bytes)).2.2 = true :=
  lex_document_file S V none sa root bytes hwf hser

end AV.SerLex

namespace AV.SerLex
open AV.W AV.Lex

/-! ### which comments of the editing API are written readably -/

/-- the byte string contains `--` -/
def hasDD : Bytes → Bool
  | 45 :: 45 :: _ => true
  | _ :: r => hasDD r
  | [] => false

theorem hasDD_tail (a : UInt8) (l : Bytes) (h : hasDD (a :: l) = false) : hasDD l = false := by
  unfold hasDD at h
  split at h
  · cases h
  · rename_i heq; cases heq; exact h
  · rename_i heq; cases heq

theorem hasArrow_noDD (l : Bytes) (h : hasDD l = false) : hasArrow (l ++ [45, 45]) = false := by
  induction l with
  | nil => decide
  | cons a l' ih =>
    have ih' := ih (hasDD_tail a l' h)
    generalize hx : a :: l' ++ [45, 45] = x
    unfold hasArrow
    split
    · rename_i r
      exfalso
      simp only [List.cons_append, List.cons.injEq] at hx
      obtain ⟨rfl, hx⟩ := hx
      match l', hx, h with
      | [], hx, _ => simp at hx
      | b :: l'', hx, h =>
        simp only [List.cons_append, List.cons.injEq] at hx
        obtain ⟨rfl, _⟩ := hx
        simp [hasDD] at h
    · rename_i heq; simp only [List.cons_append] at hx; cases hx; exact ih'
    · cases hx

theorem fixComment_head (r y : Bytes) (b : UInt8) (hb : b ≠ 95) (h : fixComment r = b :: y) : ∃ r', r = b :: r' := by
  unfold fixComment at h
  split at h
  · simp only [List.cons.injEq] at h; exact absurd h.1.symm hb
  · simp only [List.cons.injEq] at h; exact ⟨_, by rw [h.1]⟩
  · cases h

theorem fixComment_noDD (c : Bytes) : hasDD (fixComment c) = false := by
  fun_induction fixComment c with
  | case1 r ih => simpa [hasDD] using ih
  | case2 a r hne ih =>
    generalize hx : a :: fixComment r = x
    unfold hasDD
    split
    · rename_i y
      exfalso
      simp only [List.cons.injEq] at hx
      obtain ⟨rfl, hx⟩ := hx
      obtain ⟨r', rfl⟩ := fixComment_head r y 45 (by decide) hx
      exact hne r' rfl rfl
    · rename_i heq; cases hx; exact ih
    · cases hx
  | case3 => rfl

/-- **every comment `set_comment` can store is written readably**: `fixComment` leaves no `--`, hence no `-->` -/
theorem commentOK_fixComment (c : Bytes) : commentOK (fixComment c) = true := by
  unfold commentOK
  rw [hasArrow_noDD _ (fixComment_noDD c)]
  rfl

end AV.SerLex

/-! ### non-vacuity and findings (toy specification, checked against `Lex.lex` by evaluation) -/

namespace AV.SerLex.Examples
open AV AV.W AV.Lex AV.SerLex

/-- `<!--hi-->` `<R T="x&lt;y">` `<A>seven</A>` `<B/>` `<B>a b</B>` `</R>`: a comment, an attribute with an escaped value,
nested elements, an empty element, an enumeration value and a string as character data -/
def exTree : Items :=
  .elem ⟨1, 100, ⟨0, 0⟩, .model 0, [(5, .str [120, 60, 121])], [], some [104, 105]⟩
    (.elem ⟨2, 101, ⟨1, 1⟩, .elem 1, [], [], none⟩ (.text (.enum 7) .nil)
      (.elem ⟨3, 102, ⟨2, 2⟩, .elem 1, [], [], none⟩ .nil
        (.elem ⟨4, 102, ⟨2, 2⟩, .elem 1, [], [], none⟩ (.text (.str [97, 32, 98]) .nil) .nil)))
    .nil

/-- "\n<!--hi-->\n<R T=\"x&lt;y\">\n  <A>seven</A>\n  <B/>\n  <B>a b</B>\n</R>" -/
def exBytes : Bytes := [10, 60, 33, 45, 45, 104, 105, 45, 45, 62, 10, 60, 82, 32, 84, 61, 34, 120, 38, 108, 116, 59, 121, 34,
  62, 10, 32, 32, 60, 65, 62, 115, 101, 118, 101, 110, 60, 47, 65, 62, 10, 32, 32, 60, 66, 47, 62, 10, 32, 32, 60, 66, 62,
  97, 32, 98, 60, 47, 66, 62, 10, 60, 47, 82, 62]

def exToks : List Event := [.comment [104, 105],
  .beginElement [82] [84, 61, 34, 120, 38, 108, 116, 59, 121, 34],
  .beginElement [65] [], .characters [115, 101, 118, 101, 110], .endElement [65],
  .beginElement [66] [], .endElement [66],
  .beginElement [66] [], .characters [97, 32, 98], .endElement [66],
  .endElement [82]]

example : wfItems toyEnv exTree = true := by decide
example : serForest toySpec toyEnv none 0 false exTree = some exBytes := by
  simp only [exTree, serForest, bs_commentOpen, bs_commentClose]; decide
example : tokensOf toySpec toyEnv false exTree = some exToks := by decide
example : (Lex.lex (xmlDecl none ++ exBytes)).1.map (·.2) = .header none :: exToks ++ [.eof] ∧
    (Lex.lex (xmlDecl none ++ exBytes)).2.1 = none := by decide

/-- the toy specification with a fourth type (3) of MIXED content -/
def mixSpec : Spec :=
  { toySpec with mode := fun t => if t = 0 then .sequence else if t = 3 then .mixed else .characters }

/-- MIXED content `<B>ab<!--c--><A/>  c7</B>`: text, a commented empty element inline, then THREE character items
("  ", "c", 7) that are read back as ONE run -/
def mixTree : Items :=
  .elem ⟨1, 102, ⟨2, 3⟩, .model 0, [], [], none⟩
    (.text (.str [97, 98]) (.elem ⟨2, 101, ⟨1, 1⟩, .elem 1, [], [], some [99]⟩ .nil
      (.text (.str [32, 32]) (.text (.str [99]) (.text (.uint 7) .nil))))) .nil

def mixBytes : Bytes :=
  [10, 60, 66, 62, 97, 98, 60, 33, 45, 45, 99, 45, 45, 62, 60, 65, 47, 62, 32, 32, 99, 55, 60, 47, 66, 62]

def mixToks : List Event := [.beginElement [66] [], .characters [97, 98], .comment [99], .beginElement [65] [],
  .endElement [65], .characters [32, 32, 99, 55], .endElement [66]]

example : wfItems toyEnv mixTree = true := by decide
example : serForest mixSpec toyEnv none 0 false mixTree = some mixBytes := by
  simp only [mixTree, serForest, bs_commentOpen, bs_commentClose]; decide
example : tokensOf mixSpec toyEnv false mixTree = some mixToks := by decide
example : (Lex.lex (xmlDecl none ++ mixBytes)).1.map (·.2) = .header none :: mixToks ++ [.eof] ∧
    (Lex.lex (xmlDecl none ++ mixBytes)).2.1 = none := by decide

/-! **Repaired defect c01:comment-starting-with-gt** (found here, fixed upstream: the lexer now searches the closing `-->`
no earlier than offset 6).  `set_comment(">")` stores `>` (only `--` is replaced), the serializer writes `<!-->-->`; the
old lexer took the first `>` for the end of the comment (`invalidComment` on reload).  Now the comments `>` and `->x`
are read back as such, and `commentOK (fixComment c)` holds of EVERY text (`commentOK_fixComment`). -/

def gtTree (c : Bytes) : Items := .elem ⟨1, 100, ⟨0, 0⟩, .model 0, [], [], some c⟩ .nil .nil

/-- "\n<!-->-->\n<R/>" -/
def gtBytes1 : Bytes := [10, 60, 33, 45, 45, 62, 45, 45, 62, 10, 60, 82, 47, 62]
/-- "\n<!--->x-->\n<R/>" -/
def gtBytes2 : Bytes := [10, 60, 33, 45, 45, 45, 62, 120, 45, 45, 62, 10, 60, 82, 47, 62]

example : fixComment [62] = [62] ∧ fixComment [45, 62, 120] = [45, 62, 120] := by decide
example : commentOK [62] = true ∧ commentOK [45, 62, 120] = true := by decide
example : wfItems toyEnv (gtTree [62]) = true ∧ wfItems toyEnv (gtTree [45, 62, 120]) = true := by decide
example : serForest toySpec toyEnv none 0 false (gtTree [62]) = some gtBytes1 := by
  simp only [gtTree, serForest, bs_commentOpen, bs_commentClose]; decide
example : serForest toySpec toyEnv none 0 false (gtTree [45, 62, 120]) = some gtBytes2 := by
  simp only [gtTree, serForest, bs_commentOpen, bs_commentClose]; decide
example : Lex.lex (xmlDecl none ++ gtBytes1) =
    ([(1, .header none), (2, .comment [62]), (3, .beginElement [82] []), (3, .endElement [82]), (3, .eof)], none, true) := by
  decide
example : Lex.lex (xmlDecl none ++ gtBytes2) =
    ([(1, .header none), (2, .comment [45, 62, 120]), (3, .beginElement [82] []), (3, .endElement [82]), (3, .eof)],
      none, true) := by decide
/-- a comment that ends in `-` is read back correctly (`<!--x--->`) -/
example : commentOK [120, 45] = true := by decide
/-- the one thing that cannot be written: a text containing `-->` (never stored by `set_comment`) -/
example : commentOK [97, 45, 45, 62, 98] = false ∧ commentOK (fixComment [97, 45, 45, 62, 98]) = true := by decide

/-! **Known finding (white-space-only values are dropped)**: `<B> </B>` is read as begin, end. -/
def wsTree : Items := .elem ⟨1, 102, ⟨2, 2⟩, .model 0, [], [], none⟩ (.text (.str [32]) .nil) .nil
example : serForest toySpec toyEnv none 0 false wsTree = some [10, 60, 66, 62, 32, 60, 47, 66, 62] := by decide
example : tokensOf toySpec toyEnv false wsTree = some [.beginElement [66] [], .endElement [66]] := by decide
example : (Lex.lex (xmlDecl none ++ [10, 60, 66, 62, 32, 60, 47, 66, 62])).1.map (·.2) =
    [.header none, .beginElement [66] [], .endElement [66], .eof] := by decide

/-! **Finding (consecutive character items of MIXED content are merged)**: two items "a", "b" (made by
`insert_character_content_item` twice) are written as `ab` and read back as ONE character run. -/
example : tokensOf mixSpec toyEnv true (.text (.str [97]) (.text (.str [98]) .nil)) = some [.characters [97, 98]] := by decide

/-! the text for a file: an element that is not written for the file does not even interrupt the character run -/
def mixTree2 : Items :=
  .elem ⟨1, 102, ⟨2, 3⟩, .model 0, [], [], none⟩
    (.text (.str [97, 98]) (.elem ⟨2, 101, ⟨1, 1⟩, .elem 1, [], [2], some [99]⟩ .nil
      (.text (.str [32, 32]) (.text (.str [99]) .nil)))) .nil
/-- "\n<B>ab  c</B>" -/
def mixBytes2 : Bytes := [10, 60, 66, 62, 97, 98, 32, 32, 99, 60, 47, 66, 62]
example : serForest mixSpec toyEnv (some 1) 0 false mixTree2 = some mixBytes2 := by decide
example : tokensOfFile mixSpec toyEnv (some 1) false mixTree2 =
    some [.beginElement [66] [], .characters [97, 98, 32, 32, 99], .endElement [66]] := by decide
example : (Lex.lex (xmlDecl (some true) ++ mixBytes2)).1.map (·.2) =
    [.header (some true), .beginElement [66] [], .characters [97, 98, 32, 32, 99], .endElement [66], .eof] := by decide

end AV.SerLex.Examples
