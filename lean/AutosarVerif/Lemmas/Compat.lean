/-
C17: the version compatibility walk.  For a target version `ver = 2^i` (one bit, i < 32):

* no incompatibility listed  →  the returned mask contains the target version;
* every listed incompatibility either carries a mask that excludes the target version, or is a value of
  the wrong kind under an enumeration specification (mask `u32::MAX`);
* an incompatibility whose own mask excludes the target version clears the target version in the returned mask.

So "the mask contains the target version exactly when nothing is listed" holds for every tree without
wrong-kind values, and `set_version` is allowed exactly when nothing is listed and changes nothing but the
version of that file.
-/
import AutosarVerif.Model.Compat

namespace AV.W

def CErr.mask : CErr → Nat
  | .attr _ _ m => m
  | .attrVal _ _ m => m
  | .elem _ m => m

/-- the version `2^i` is in the mask -/
def hasVer (m i : Nat) : Bool := m.testBit i

theorem and_pow_eq_zero (m i : Nat) : (m &&& 2 ^ i = 0) ↔ hasVer m i = false := by
  unfold hasVer
  constructor
  · intro h
    have := congrArg (fun x => x.testBit i) h
    simpa [Nat.testBit_and, Nat.testBit_two_pow] using this
  · intro h
    apply Nat.eq_of_testBit_eq
    intro j
    simp only [Nat.testBit_and, Nat.testBit_two_pow, Nat.zero_testBit]
    by_cases hij : i = j
    · subst hij; simp [h]
    · simp [hij]

theorem hasVer_and (a b i : Nat) : hasVer (a &&& b) i = (hasVer a i && hasVer b i) := by
  unfold hasVer; exact Nat.testBit_and a b i

theorem hasVer_max (i : Nat) (hi : i < 32) : hasVer maxMask i = true := by
  unfold hasVer maxMask
  have : (0xFFFFFFFF : Nat) = 2 ^ 32 - 1 := by decide
  rw [this, Nat.testBit_two_pow_sub_one]
  simpa using hi

/-- an error that excludes the target version, or a wrong-kind value -/
def ErrOk (i : Nat) (e : CErr) : Prop := hasVer e.mask i = false ∨ e.mask = maxMask

/-- what the three theorems say about one partial result -/
structure Good (i : Nat) (errs : List CErr) (mask : Nat) : Prop where
  none_then_has : errs = [] → hasVer mask i = true
  each : ∀ e ∈ errs, ErrOk i e
  excl_clears : (∃ e ∈ errs, hasVer e.mask i = false) → hasVer mask i = false

theorem Good.nil (i : Nat) (hi : i < 32) : Good i [] maxMask :=
  ⟨fun _ => hasVer_max i hi, by simp, by simp⟩

/-- two checked parts one after the other -/
theorem Good.append {i : Nat} {e1 e2 : List CErr} {m1 m2 : Nat} (h1 : Good i e1 m1) (h2 : Good i e2 m2) :
    Good i (e1 ++ e2) (m1 &&& m2) := by
  refine ⟨?_, ?_, ?_⟩
  · intro h
    have ha : e1 = [] ∧ e2 = [] := by simpa using h
    rw [hasVer_and, h1.none_then_has ha.1, h2.none_then_has ha.2]; rfl
  · intro e he
    rcases List.mem_append.mp he with h | h
    · exact h1.each e h
    · exact h2.each e h
  · rintro ⟨e, he, hx⟩
    rw [hasVer_and]
    rcases List.mem_append.mp he with h | h
    · rw [h1.excl_clears ⟨e, h, hx⟩]; rfl
    · rw [h2.excl_clears ⟨e, h, hx⟩]; simp

/-- a mask that contains the target version, in front of a checked part -/
theorem Good.and_has {i : Nat} {es : List CErr} {m vm : Nat} (h : Good i es m) (hv : hasVer vm i = true) :
    Good i es (vm &&& m) := by
  refine ⟨?_, h.each, ?_⟩
  · intro he; rw [hasVer_and, hv, h.none_then_has he]; rfl
  · intro hx; rw [hasVer_and, h.excl_clears hx]; simp

/-- one error whose mask excludes the target version, in front of a checked part -/
theorem Good.cons_excl {i : Nat} {es : List CErr} {m : Nat} (e : CErr) (h : Good i es m) (hv : hasVer e.mask i = false) :
    Good i (e :: es) (e.mask &&& m) := by
  refine ⟨by simp, ?_, ?_⟩
  · intro x hx
    rcases List.mem_cons.mp hx with rfl | hx
    · exact Or.inl hv
    · exact h.each x hx
  · intro _; rw [hasVer_and, hv]; rfl

theorem valueCompatMask_ok (v : CDv) (sp : CSpec) (i : Nat) (hi : i < 32) (h : (valueCompatMask v sp (2 ^ i)).1 = true) :
    hasVer (valueCompatMask v sp (2 ^ i)).2 i = true := by
  unfold valueCompatMask at *
  split at h
  · split at h
    · split at h
      · rename_i it _
        simp only [bne_iff_ne, ne_eq] at h ⊢
        cases hb : hasVer it.2 i
        · exact absurd ((and_pow_eq_zero _ _).mpr hb) h
        · simp_all
      · simp at h
    · simp at h
  · exact hasVer_max i hi

theorem valueCompatMask_bad (v : CDv) (sp : CSpec) (i : Nat) (h : (valueCompatMask v sp (2 ^ i)).1 = false) :
    hasVer (valueCompatMask v sp (2 ^ i)).2 i = false ∨ (valueCompatMask v sp (2 ^ i)).2 = maxMask := by
  unfold valueCompatMask at *
  split at h
  · split at h
    · split at h
      · rename_i it _
        left
        simp only [bne_eq_false_iff_eq] at h ⊢
        have := (and_pow_eq_zero it.2 i).mp (by simpa using h)
        simpa using this
      · left; simp [hasVer]
    · right; rfl
  · simp at h

section
variable (S : Spec)

theorem compatAttrs_good (typNew eid i : Nat) (hi : i < 32) (attrs : List (Nat × CDv)) :
    Good i (compatAttrs S typNew eid (2 ^ i) attrs).1 (compatAttrs S typNew eid (2 ^ i) attrs).2 := by
  induction attrs with
  | nil => exact Good.nil i hi
  | cons a rest ih =>
    unfold compatAttrs
    cases hfa : S.findAttr typNew a.1 with
    | none => simpa [hfa] using ih
    | some t =>
      obtain ⟨cd, req, vm⟩ := t
      dsimp only
      by_cases hz : vm &&& 2 ^ i = 0
      · rw [if_pos hz]
        exact Good.cons_excl (.attr eid a.1 vm) ih ((and_pow_eq_zero _ _).mp hz)
      · rw [if_neg hz]
        have hvm : hasVer vm i = true := by
          cases hb : hasVer vm i
          · exact absurd ((and_pow_eq_zero _ _).mpr hb) hz
          · rfl
        cases hok : (valueCompatMask a.2 (S.cspec cd) (2 ^ i)).1
        · -- value incompatible
          have hb := valueCompatMask_bad a.2 (S.cspec cd) i hok
          simp only [Bool.false_eq_true, if_false]
          refine ⟨by simp, ?_, ?_⟩
          · intro x hx
            rcases List.mem_cons.mp hx with rfl | hx
            · exact hb
            · exact ih.each x hx
          · rintro ⟨x, hx, hxm⟩
            rw [hasVer_and, hasVer_and]
            rcases List.mem_cons.mp hx with rfl | hx
            · simp only [CErr.mask] at hxm; rw [hxm]; simp
            · rw [ih.excl_clears ⟨x, hx, hxm⟩]; simp
        · have hg := valueCompatMask_ok a.2 (S.cspec cd) i hi hok
          simp only [if_true]
          exact Good.and_has (Good.and_has ih hg) hvm

theorem compatTexts_good (sp : CSpec) (eid i : Nat) (hi : i < 32) (its : Items) :
    Good i (compatTexts sp eid (2 ^ i) its).1 (compatTexts sp eid (2 ^ i) its).2 := by
  induction its with
  | nil => exact Good.nil i hi
  | elem _ _ r _ ihr => unfold compatTexts; exact ihr
  | text c r ih =>
    unfold compatTexts
    cases hok : (valueCompatMask c sp (2 ^ i)).1
    · have hb := valueCompatMask_bad c sp i hok
      simp only [hok, Bool.false_eq_true, if_false]
      refine ⟨by simp, ?_, ?_⟩
      · intro x hx
        rcases List.mem_cons.mp hx with rfl | hx
        · exact hb
        · exact ih.each x hx
      · rintro ⟨x, hx, hxm⟩
        rw [hasVer_and]
        rcases List.mem_cons.mp hx with rfl | hx
        · simp only [CErr.mask] at hxm; rw [hxm]; rfl
        · rw [ih.excl_clears ⟨x, hx, hxm⟩]; simp
    · have hg := valueCompatMask_ok c sp i hi hok
      simp only [hok, if_true]
      exact Good.and_has ih hg

theorem compatKids_good (file i : Nat) (hi : i < 32) (its : Items) : ∀ tOld tNew : Nat,
    Good i (compatKids S file (2 ^ i) tOld tNew its).errs (compatKids S file (2 ^ i) tOld tNew its).mask := by
  induction its with
  | nil => intro _ _; exact Good.nil i hi
  | text _ r ih => intro tOld tNew; unfold compatKids; exact ih tOld tNew
  | elem h k r ihk ihr =>
    intro tOld tNew
    unfold compatKids
    by_cases hf : h.files.isEmpty ∨ h.files.contains file
    · simp only [hf, if_true]
      split
      · exact ihr tOld tNew
      · rename_i idx _
        split
        · exact ihr tOld tNew
        · rename_i vm _
          by_cases hz : vm &&& 2 ^ i = 0
          · simp only [hz, if_true]
            exact Good.cons_excl (.elem h.id vm) (ihr tOld tNew) ((and_pow_eq_zero _ _).mp hz)
          · simp only [hz, if_false]
            have hvm : hasVer vm i = true := by
              cases hb : hasVer vm i
              · exact absurd ((and_pow_eq_zero _ _).mpr hb) hz
              · rfl
            have ga := compatAttrs_good S (recalcType S (some tOld) h (2 ^ i)) h.id i hi h.attrs
            have gt : Good i
                (match S.chardataSpec (recalcType S (some tOld) h (2 ^ i)) with
                  | some sp => compatTexts sp h.id (2 ^ i) k
                  | none => ([], maxMask)).1
                (match S.chardataSpec (recalcType S (some tOld) h (2 ^ i)) with
                  | some sp => compatTexts sp h.id (2 ^ i) k
                  | none => ([], maxMask)).2 := by
              split
              · exact compatTexts_good _ h.id i hi k
              · exact Good.nil i hi
            have gs := ihk h.ety.typ (recalcType S (some tOld) h (2 ^ i))
            have gr := ihr tOld tNew
            exact Good.and_has (Good.append ga (Good.append gt (Good.append gs gr))) hvm
    · simp only [hf, if_false]
      exact ihr tOld tNew

theorem compatFile_good (m : Model) (file i : Nat) (hi : i < 32) :
    Good i (compatFile S m file (2 ^ i)).errs (compatFile S m file (2 ^ i)).mask := by
  unfold compatFile
  have ga := compatAttrs_good S m.rootHdr.ety.typ m.rootHdr.id i hi m.rootHdr.attrs
  have gt : Good i
      (match S.chardataSpec m.rootHdr.ety.typ with
        | some sp => compatTexts sp m.rootHdr.id (2 ^ i) m.rootKids
        | none => ([], maxMask)).1
      (match S.chardataSpec m.rootHdr.ety.typ with
        | some sp => compatTexts sp m.rootHdr.id (2 ^ i) m.rootKids
        | none => ([], maxMask)).2 := by
    split
    · exact compatTexts_good _ _ i hi _
    · exact Good.nil i hi
  have gs := compatKids_good S file i hi m.rootKids m.rootHdr.ety.typ m.rootHdr.ety.typ
  exact Good.append ga (Good.append gt gs)


/-! ### what "the check lists nothing" means -/

/-- every attribute that the target type knows is allowed in the target version and has a compatible value -/
def AttrsOk (typNew ver : Nat) (attrs : List (Nat × CDv)) : Prop :=
  ∀ a ∈ attrs, ∀ cd req vm, S.findAttr typNew a.1 = some (cd, req, vm) →
    (vm &&& ver) ≠ 0 ∧ (valueCompatMask a.2 (S.cspec cd) ver).1 = true

/-- every character data item is compatible -/
def TextsOk (sp : CSpec) (ver : Nat) : Items → Prop
  | .nil => True
  | .elem _ _ r => TextsOk sp ver r
  | .text c r => (valueCompatMask c sp ver).1 = true ∧ TextsOk sp ver r

/-- every child element that belongs to the file and that the target type knows is allowed in the target version
(mask read from the current type) and is itself in order, recursively -/
def KidsOk (file ver : Nat) (tOld tNew : Nat) : Items → Prop
  | .nil => True
  | .text _ r => KidsOk file ver tOld tNew r
  | .elem h k r =>
    KidsOk file ver tOld tNew r ∧
    ((h.files.isEmpty ∨ h.files.contains file) →
      ∀ e idx, S.findSubOr tNew h.name ver = some (e, idx) →
        ∀ vm, subMaskChecked S (S.depth + 2) tOld idx = some vm →
          (vm &&& ver) ≠ 0 ∧
          AttrsOk S (recalcType S (some tOld) h ver) ver h.attrs ∧
          (∀ sp, S.chardataSpec (recalcType S (some tOld) h ver) = some sp → TextsOk sp ver k) ∧
          KidsOk file ver h.ety.typ (recalcType S (some tOld) h ver) k)

theorem compatAttrs_nil_iff (typNew eid ver : Nat) (attrs : List (Nat × CDv)) :
    (compatAttrs S typNew eid ver attrs).1 = [] ↔ AttrsOk S typNew ver attrs := by
  induction attrs with
  | nil => simp [compatAttrs, AttrsOk]
  | cons a rest ih =>
    unfold compatAttrs
    have hcons : AttrsOk S typNew ver (a :: rest) ↔
        (∀ cd req vm, S.findAttr typNew a.1 = some (cd, req, vm) →
          (vm &&& ver) ≠ 0 ∧ (valueCompatMask a.2 (S.cspec cd) ver).1 = true) ∧ AttrsOk S typNew ver rest := by
      unfold AttrsOk
      constructor
      · intro h
        exact ⟨h a (List.mem_cons_self ..), fun b hb => h b (List.mem_cons_of_mem _ hb)⟩
      · rintro ⟨h1, h2⟩ b hb
        rcases List.mem_cons.mp hb with rfl | hb
        · exact h1
        · exact h2 b hb
    rw [hcons]
    rcases hfa : S.findAttr typNew a.1 with _ | ⟨cd, req, vm⟩
    · dsimp only
      rw [ih]
      constructor
      · intro h; exact ⟨(by intro _ _ _ hh; cases hh), h⟩
      · intro h; exact h.2
    · dsimp only
      by_cases hz : vm &&& ver = 0
      · rw [if_pos hz]
        constructor
        · intro h; cases h
        · intro h; exact absurd hz (h.1 cd req vm rfl).1
      · rw [if_neg hz]
        cases hok : (valueCompatMask a.2 (S.cspec cd) ver).1
        · simp only [Bool.false_eq_true, if_false]
          constructor
          · intro h; cases h
          · intro h
            have := (h.1 cd req vm rfl).2
            rw [hok] at this; cases this
        · simp only [if_true]
          rw [ih]
          constructor
          · intro h
            refine ⟨?_, h⟩
            intro cd' req' vm' hh
            cases hh
            exact ⟨hz, hok⟩
          · intro h; exact h.2

theorem compatTexts_nil_iff (sp : CSpec) (eid ver : Nat) (its : Items) :
    (compatTexts sp eid ver its).1 = [] ↔ TextsOk sp ver its := by
  induction its with
  | nil => simp [compatTexts, TextsOk]
  | elem _ _ r _ ihr => unfold compatTexts TextsOk; exact ihr
  | text c r ih =>
    unfold compatTexts TextsOk
    dsimp only
    cases hok : (valueCompatMask c sp ver).1
    · simp
    · simp only [if_true, true_and]
      exact ih

theorem compatKids_nil_iff (file ver : Nat) (its : Items) : ∀ tOld tNew : Nat,
    (compatKids S file ver tOld tNew its).errs = [] ↔ KidsOk S file ver tOld tNew its := by
  induction its with
  | nil => intro _ _; simp [compatKids, KidsOk]
  | text _ r ih => intro tOld tNew; unfold compatKids KidsOk; exact ih tOld tNew
  | elem h k r ihk ihr =>
    intro tOld tNew
    unfold compatKids KidsOk
    by_cases hf : h.files.isEmpty ∨ h.files.contains file
    · rw [if_pos hf]
      rcases hfound : S.findSubOr tNew h.name ver with _ | ⟨e, idx⟩
      · dsimp only
        rw [ihr tOld tNew]
        constructor
        · intro hr; exact ⟨hr, fun _ _ _ hh => by cases hh⟩
        · intro hr; exact hr.1
      · dsimp only
        rcases hsm : subMaskChecked S (S.depth + 2) tOld idx with _ | vm
        · dsimp only
          rw [ihr tOld tNew]
          constructor
          · intro hr
            refine ⟨hr, fun _ e' idx' hh vm' hv => ?_⟩
            cases hh
            rw [hsm] at hv; cases hv
          · intro hr; exact hr.1
        · dsimp only
          by_cases hz : vm &&& ver = 0
          · rw [if_pos hz]
            constructor
            · intro hc; cases hc
            · intro hr
              exact absurd hz (hr.2 hf e idx rfl vm hsm).1
          · rw [if_neg hz]
            dsimp only
            rw [List.append_eq_nil_iff, List.append_eq_nil_iff, List.append_eq_nil_iff,
              compatAttrs_nil_iff, ihk, ihr]
            constructor
            · rintro ⟨ha, ht, hk', hr⟩
              refine ⟨hr, fun _ e' idx' hh vm' hv => ?_⟩
              cases hh
              rw [hsm] at hv; cases hv
              refine ⟨hz, ha, ?_, hk'⟩
              intro sp hsp
              rw [hsp] at ht
              exact (compatTexts_nil_iff sp h.id ver k).mp ht
            · rintro ⟨hr, hall⟩
              obtain ⟨_, ha, ht, hk'⟩ := hall hf e idx rfl vm hsm
              refine ⟨ha, ?_, hk', hr⟩
              cases hsp : S.chardataSpec (recalcType S (some tOld) h ver) with
              | none => rfl
              | some sp => exact (compatTexts_nil_iff sp h.id ver k).mpr (ht sp hsp)
    · rw [if_neg hf]
      rw [ihr tOld tNew]
      constructor
      · intro hr; exact ⟨hr, fun hh => absurd hh hf⟩
      · intro hr; exact hr.1

/-- `set_version` refuses exactly when the check lists something (no panic), and a refusal changes nothing -/
theorem opSetVersion_err_iff (w : World) (f ver k : Nat) (hk : fileModel w f = some k)
    (hp : (compatFile S (w.models[k]!) f ver).panic = false) :
    (opSetVersion S w f ver).2 = .err ↔ (compatFile S (w.models[k]!) f ver).errs ≠ [] := by
  unfold opSetVersion
  simp only [hk, hp, Bool.false_eq_true, if_false]
  cases he : (compatFile S (w.models[k]!) f ver).errs with
  | nil => simp
  | cons e es => simp

theorem opSetVersion_err_frame (w : World) (f ver : Nat) :
    (opSetVersion S w f ver).2 = .err → (opSetVersion S w f ver).1 = w := by
  unfold opSetVersion
  split
  · intro h; cases h
  · dsimp only
    split
    · intro h; cases h
    · split
      · intro h; cases h
      · intro _; rfl

theorem getElem!_set_self (l : List Model) (k : Nat) (m : Model) (h : k < l.length) : (l.set k m)[k]! = m := by
  simp [h]

/-- the world after a successful `set_version` -/
theorem opSetVersion_ok_eq (w : World) (f ver k : Nat) (hk : fileModel w f = some k)
    (hok : (opSetVersion S w f ver).2 = .ok "") :
    (opSetVersion S w f ver).1 =
      setModel w k { (w.models[k]!) with files := (w.models[k]!).files.map fun fl => if fl.id == f then { fl with version := ver } else fl } := by
  unfold opSetVersion at hok ⊢
  simp only [hk] at hok ⊢
  split at hok
  · cases hok
  · rename_i hp
    rw [if_neg hp]
    split at hok
    · rename_i he
      rw [if_pos he]
    · cases hok

/-- a successful `set_version` changes the version of that file and nothing else of the model: the element tree,
the path index and the referrer lists are the same, and so is the list of files up to their versions -/
theorem opSetVersion_ok_content (w : World) (f ver k : Nat) (hk : fileModel w f = some k) (hlt : k < w.models.length)
    (hok : (opSetVersion S w f ver).2 = .ok "") :
    ((opSetVersion S w f ver).1.models[k]!).rootKids = (w.models[k]!).rootKids ∧
    ((opSetVersion S w f ver).1.models[k]!).rootHdr = (w.models[k]!).rootHdr ∧
    ((opSetVersion S w f ver).1.models[k]!).index = (w.models[k]!).index ∧
    ((opSetVersion S w f ver).1.models[k]!).refs = (w.models[k]!).refs ∧
    ((opSetVersion S w f ver).1.models[k]!).files.map (·.id) = (w.models[k]!).files.map (·.id) := by
  rw [opSetVersion_ok_eq S w f ver k hk hok]
  unfold setModel
  rw [getElem!_set_self _ _ _ hlt]
  refine ⟨rfl, rfl, rfl, rfl, ?_⟩
  simp only [List.map_map]
  apply List.map_congr_left
  intro fl _
  simp only [Function.comp]
  split <;> rfl

end

end AV.W

