-- Root of the `AutosarVerif` library: model, generated tables, lemmas, property theorems.
import AutosarVerif.Model.Hash
