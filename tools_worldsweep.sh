#!/bin/bash
# debug helper: world histories for several seeds and kinds, diffed against the Lean driver; prints disagreements and
# oracle failures whose signature is not listed.  usage: tools_worldsweep.sh <first-seed> <last-seed>
cd /verif
run_one() {
  s=$1; k=$2; d=/tmp/ws_${k}_$s
  rm -rf $d
  ./harness/target/release/avharness world --out $d --seed $s --tier quick --kind $k >/dev/null 2>&1
  ./lean/.lake/build/bin/avdriver < $d/req.txt > $d/model.txt
  echo "== seed $s kind $k: $(python3 tools_diff.py $d 2 2>&1 | head -8 | cut -c1-240 | tr '\n' '~')"
  python3 - "$d" <<'PY'
import json,re,sys
known=set(re.findall(r'sig=(\S+)',open('/verif/KNOWN_FINDINGS.txt').read()))
o=json.load(open(sys.argv[1]+'/oracle.json'))
seen=set()
for f in o['oracle_failures']:
    m=re.match(r'\[(C\d+)\](\[sig=([^\]]+)\])?',f)
    if m.group(3) in known: continue
    key=re.sub(r'e\d+|f\d+|m\d+|\d+','N',f[:90])
    if key in seen: continue
    seen.add(key); print('   UNKNOWN', f[:400])
PY
}
export -f run_one
for s in $(seq $1 $2); do for k in basic sort copy files; do echo "$s $k"; done; done | xargs -P 6 -L 1 bash -c 'run_one $0 $1'
