//! avharness: drives the real autosar-data library with the same request stream the Lean driver answers.
//! usage: avharness <scenario> --out <dir> [--seed N] [--tier quick|thorough] [--side side.json] [--replay file] [--prop Cxx] [--kind basic|sort|copy|files]
mod c02;
mod c18;
mod c19;
mod c20;
mod conc;
mod docs;
mod edits;
mod evalreq;
mod merge;
mod rx;
mod specwalk;
mod util;
mod world;

fn main() {
    let args: Vec<String> = std::env::args().collect();
    if args.len() < 2 {
        eprintln!("usage: avharness <scenario> --out <dir> [--seed N] [--tier quick|thorough]");
        std::process::exit(2);
    }
    let scenario = args[1].clone();
    let mut out = String::from("/tmp/avh_out");
    let mut seed: u64 = 1;
    let mut thorough = false;
    let mut side = String::from("/verif/lean/AutosarVerif/Gen/side.json");
    let mut replay: Option<String> = None;
    let mut prop: Option<String> = None;
    let mut kind: Option<String> = None;
    let mut i = 2;
    while i < args.len() {
        match args[i].as_str() {
            "--out" => { out = args[i + 1].clone(); i += 2 }
            "--seed" => { seed = args[i + 1].parse().unwrap_or(1); i += 2 }
            "--tier" => { thorough = args[i + 1] == "thorough"; i += 2 }
            "--side" => { side = args[i + 1].clone(); i += 2 }
            "--replay" => { replay = Some(args[i + 1].clone()); i += 2 }
            "--prop" => { prop = Some(args[i + 1].clone()); i += 2 }
            "--kind" => { kind = Some(args[i + 1].clone()); i += 2 }
            _ => { i += 1 }
        }
    }
    match scenario.as_str() {
        "c02" => c02::run(&out, seed, thorough, &side),
        "c02deep" => c02::deep(seed as usize),
        "c18" => c18::run(&out, seed, thorough, &side),
        "c19" => c19::run(&out, seed, thorough, &side),
        "c20" => c20::run(&out, seed, thorough, &side),
        "edits" => edits::run(&out, seed, thorough, &side),
        "conc" => conc::run(&out, seed, thorough, &side),
        "concchild" => conc::child(),
        "docs" => docs::run(&out, seed, thorough, &side),
        "world" => match &replay {
            Some(file) => world::run_replay(&out, file, prop.as_deref(), kind.as_deref()),
            None => world::run(&out, seed, thorough, &side, prop.as_deref(), kind.as_deref()),
        },
        "merge" => merge::run(&out, seed, thorough, &side),
        "eval" => evalreq::run(&out, replay.as_deref().expect("--replay <request file>"), &side),
        _ => {
            eprintln!("unknown scenario {scenario}");
            std::process::exit(2);
        }
    }
}
