//! C18 scenario: name tables, versions, specification lookups.
//! Each request is answered by the real library here and by the Lean driver later; in addition the
//! direct oracle of the property is evaluated on the implementation's answers.
use crate::specwalk::*;
use crate::util::*;
use autosar_data_specification::*;
use std::str::FromStr;

fn from_bytes_e(b: &[u8]) -> Option<u16> { ElementName::from_bytes(b).ok().map(id16) }
fn from_bytes_a(b: &[u8]) -> Option<u16> { AttributeName::from_bytes(b).ok().map(id16) }
fn from_bytes_i(b: &[u8]) -> Option<u16> { EnumItem::from_bytes(b).ok().map(id16) }
fn from_str_e(s: &str) -> Option<u16> { ElementName::from_str(s).ok().map(id16) }
fn from_str_a(s: &str) -> Option<u16> { AttributeName::from_str(s).ok().map(id16) }
fn from_str_i(s: &str) -> Option<u16> { EnumItem::from_str(s).ok().map(id16) }

fn to_str(kind: char, i: u16) -> &'static str {
    // discriminants 0..N-1 are exactly the declared items (theorem C18_*_discriminants_cover)
    unsafe {
        match kind {
            'E' => std::mem::transmute::<u16, ElementName>(i).to_str(),
            'A' => std::mem::transmute::<u16, AttributeName>(i).to_str(),
            _ => std::mem::transmute::<u16, EnumItem>(i).to_str(),
        }
    }
}

fn show(o: Option<u16>) -> String {
    match o {
        Some(i) => format!("ok {i}"),
        None => "none".to_string(),
    }
}

fn neighbours(s: &[u8], rng: &mut Rng, all: bool) -> Vec<Vec<u8>> {
    let mut out = vec![];
    let n = s.len();
    // truncations and extensions
    if n > 0 {
        out.push(s[..n - 1].to_vec());
        out.push(s[1..].to_vec());
    }
    for c in [b'-', b'A', b'S', b' ', 0u8, b'1'] {
        let mut e = s.to_vec();
        e.push(c);
        out.push(e);
        let mut e = vec![c];
        e.extend_from_slice(s);
        out.push(e);
    }
    let positions: Vec<usize> = if all { (0..n).collect() } else { (0..3.min(n)).map(|_| rng.below(n)).collect() };
    for p in positions {
        // case change / swapped separator / arbitrary byte / deletion / duplication
        let mut e = s.to_vec();
        let c = e[p];
        e[p] = if c.is_ascii_uppercase() { c.to_ascii_lowercase() } else if c.is_ascii_lowercase() { c.to_ascii_uppercase() } else if c == b'-' { b'_' } else { b'-' };
        out.push(e);
        let mut e = s.to_vec();
        e[p] = c ^ 0x80; // non-UTF-8 in most positions
        out.push(e);
        let mut e = s.to_vec();
        e.remove(p);
        out.push(e);
        let mut e = s.to_vec();
        e.insert(p, c);
        out.push(e);
        if p + 1 < n {
            let mut e = s.to_vec();
            e.swap(p, p + 1);
            out.push(e);
        }
    }
    out
}

pub fn run(out: &str, seed: u64, thorough: bool, side_path: &str) {
    let side = Side::load(side_path);
    let mut rng = Rng::new(seed);
    let mut k = Sink::new(out);

    // ---------- names ----------
    for (kind, fb, fs) in [
        ('E', from_bytes_e as fn(&[u8]) -> Option<u16>, from_str_e as fn(&str) -> Option<u16>),
        ('A', from_bytes_a, from_str_a),
        ('I', from_bytes_i, from_str_i),
    ] {
        // number of items: probe to_str until from_bytes round trip tells us; the count itself comes from the
        // driver side too (to_str answers bad-op beyond the table), so take it from the first failing index
        let n_items: u16 = match kind { 'E' => side.n_elem, 'A' => side.n_attr, _ => side.n_enum } as u16;
        let mut texts: std::collections::HashSet<Vec<u8>> = Default::default();
        for i in 0..n_items {
            let s = to_str(kind, i);
            texts.insert(s.as_bytes().to_vec());
            k.put(&format!("to_str {kind} {i}"), &format!("ok {}", hex(s.as_bytes())), true);
        }
        if texts.len() != n_items as usize {
            k.fail(format!("{kind}: two items share one text ({} texts for {} items)", texts.len(), n_items));
        }
        for i in 0..n_items {
            let s = to_str(kind, i);
            let r = fb(s.as_bytes());
            k.put(&format!("from_bytes {kind} {}", hex(s.as_bytes())), &show(r), true);
            k.stat("member");
            if r != Some(i) {
                k.fail(format!("{kind}: item {i} text {s:?}: from_bytes gives {r:?}"));
            }
            let r2 = fs(s);
            k.put(&format!("from_str {kind} {}", hex(s.as_bytes())), &show(r2), true);
            if r2 != Some(i) {
                k.fail(format!("{kind}: item {i} text {s:?}: from_str gives {r2:?}"));
            }
            // non-members: one-edit neighbours
            let all = thorough || kind == 'A' || rng.chance(1, 8);
            for nb in neighbours(s.as_bytes(), &mut rng, all) {
                let is_member = texts.contains(&nb);
                let r = fb(&nb);
                k.put(&format!("from_bytes {kind} {}", hex(&nb)), &show(r), true);
                k.stat("neighbour");
                check_nonmember(&mut k, kind, &nb, r, is_member, n_items);
                if let Ok(st) = std::str::from_utf8(&nb) {
                    let r2 = fs(st);
                    k.put(&format!("from_str {kind} {}", hex(&nb)), &show(r2), true);
                    if r2 != r {
                        k.fail(format!("{kind}: from_str and from_bytes disagree on {:?}: {r2:?} vs {r:?}", st));
                    }
                }
            }
        }
        // empty, long, non-UTF-8, random strings
        let mut specials: Vec<Vec<u8>> = vec![vec![], vec![0], vec![0xff, 0xfe], b"A".repeat(300), b"SHORT-NAME".repeat(40), vec![0x80; 7]];
        let nrand = if thorough { 200_000 } else { 20_000 };
        for _ in 0..nrand {
            let len = rng.below(24);
            let alpha = b"ABCDEFGHIJKLMNOPQRSTUVWXYZ-0123456789abcxyz:_ ";
            let s: Vec<u8> = (0..len).map(|_| if rng.chance(1, 50) { rng.next() as u8 } else { *rng.pick(alpha) }).collect();
            specials.push(s);
        }
        for s in specials {
            let r = fb(&s);
            k.put(&format!("from_bytes {kind} {}", hex(&s)), &show(r), !s.is_empty());
            k.stat("random");
            let is_member = texts.contains(&s);
            check_nonmember(&mut k, kind, &s, r, is_member, n_items);
        }
    }

    // ---------- versions ----------
    let mut seen_files = std::collections::HashSet::new();
    let mut seen_vals = std::collections::HashSet::new();
    for v in ALL_VERSIONS {
        let val = v as u32;
        let f = v.filename();
        k.put(&format!("ver_filename {val}"), &format!("ok {}", hex(f.as_bytes())), true);
        let back = AutosarVersion::from_str(f).ok().map(|x| x as u32);
        k.put(&format!("ver_parse {}", hex(f.as_bytes())), &match back { Some(x) => format!("ok {x}"), None => "none".into() }, true);
        if back != Some(val) {
            k.fail(format!("version {val:#x}: filename {f:?} parses to {back:?}"));
        }
        if val.count_ones() != 1 {
            k.fail(format!("version value {val:#x} is not a single bit"));
        }
        if !seen_files.insert(f) || !seen_vals.insert(val) {
            k.fail(format!("version {val:#x}: value or file name is not unique"));
        }
        if AutosarVersion::from_val(val) != Some(v) {
            k.fail(format!("version {val:#x}: from_val does not return it"));
        }
        for nb in neighbours(f.as_bytes(), &mut rng, true) {
            if let Ok(st) = std::str::from_utf8(&nb) {
                let r = AutosarVersion::from_str(st).ok().map(|x| x as u32);
                k.put(&format!("ver_parse {}", hex(&nb)), &match r { Some(x) => format!("ok {x}"), None => "none".into() }, true);
                if let Some(x) = r {
                    let fx = ALL_VERSIONS.iter().find(|y| **y as u32 == x).map(|y| y.filename());
                    if fx != Some(st) {
                        k.fail(format!("from_str accepts {st:?} which is not the file name of the version it returns ({x:#x})"));
                    }
                }
            }
        }
    }
    let mut nums: Vec<u64> = (0..40).map(|b| 1u64 << b).collect();
    nums.extend([0u64, 3, 5, 6, 0x1fffff, 0x300000, u32::MAX as u64, u64::MAX]);
    for _ in 0..2000 {
        nums.push(rng.next() >> rng.below(64));
    }
    for n in nums {
        use num_traits_shim::from_u64;
        let r = from_u64(n);
        k.put(&format!("ver_from {n}"), &match r { Some(x) => format!("ok {x}"), None => "none".into() }, true);
        let expect = ALL_VERSIONS.iter().find(|y| **y as u32 as u64 == n).map(|y| *y as u32);
        if r != expect {
            k.fail(format!("from_u64({n}) = {r:?}, expected {expect:?}"));
        }
    }

    // ---------- specification lookups ----------
    let types = all_types();
    k.stats.insert("element_types".into(), types.len() as u64);
    let named_types: Vec<&TypeInfo> = types.iter().filter(|t| t.ety.is_named()).collect();
    let ref_types: Vec<&TypeInfo> = types.iter().filter(|t| t.ety.is_ref()).collect();
    for ti in &types {
        let e = ti.ety;
        let mut snmask: u32 = 0;
        for v in ALL_VERSIONS {
            if e.is_named_in_version(v) {
                snmask |= v as u32;
            }
        }
        let cd = e.chardata_spec().map(|c| cspec_str(c, &side)).unwrap_or_else(|| "none".into());
        k.put(
            &format!("type_info {}", ti.def),
            &format!("ok typ={} named={} snbits={} ref={} mode={} ordered={} split={} cdata={}", ti.typ, e.is_named(), snmask, e.is_ref(),
                mode_str(e.content_mode()), e.is_ordered(), e.splittable(), cd),
            true,
        );
        // listing
        let listing: Vec<(ElementName, ElementType, u32, u32)> = e.sub_element_spec_iter().collect();
        let mut flat = vec![];
        for (nm, sub, mask, _) in &listing {
            let (d, t) = ety_ids(sub);
            flat.extend([id16(*nm) as u64, d as u64, t as u64, *mask as u64]);
        }
        k.put(&format!("list_sub {}", ti.typ), &format!("ok {} {}", listing.len(), digest(&flat)), true);
        // listed => found, per version bit
        for (pos, (nm, _sub, mask, _)) in listing.iter().enumerate() {
            let bits: Vec<u32> = (0..21).map(|b| 1u32 << b).filter(|b| mask & b != 0).collect();
            let probe: Vec<u32> = if thorough || listing.len() < 12 || rng.chance(1, 6) { bits.clone() } else { vec![*rng.pick(&bits), bits[0], *bits.last().unwrap()] };
            let mut tested = std::collections::HashSet::new();
            for vb in probe.into_iter().chain([u32::MAX, !*mask & 0x1fffff].into_iter()) {
                if !tested.insert(vb) {
                    continue;
                }
                let r = e.find_sub_element(*nm, vb);
                let ans = match &r {
                    Some((et, idx)) => {
                        let (d, t) = ety_ids(et);
                        format!("ok {} {} {}", d, t, natlist(idx))
                    }
                    None => "none".to_string(),
                };
                k.put(&format!("find_sub {} {} {}", ti.typ, id16(*nm), vb), &ans, true);
                k.stat("find_sub");
                if vb & mask != 0 {
                    // oracle: found, with a listed type of that name and a mask containing the version
                    match &r {
                        None => k.fail(format!("type {}: listed sub-element {} (entry {pos}, mask {mask:#x}) not found with version {vb:#x}", ti.typ, nm)),
                        Some((et, idx)) => {
                            let listed = listing.iter().any(|(n2, e2, _, _)| n2 == nm && e2 == et);
                            let m2 = e.get_sub_element_version_mask(idx);
                            if !listed {
                                k.fail(format!("type {}: find_sub_element({nm}, {vb:#x}) returns a type that is not listed for that name", ti.typ));
                            }
                            if m2.map(|m| m & vb != 0) != Some(true) {
                                k.fail(format!("type {}: find_sub_element({nm}, {vb:#x}) found at {idx:?} but get_sub_element_version_mask = {m2:?} lacks the version", ti.typ));
                            }
                        }
                    }
                }
                if let Some((_, idx)) = &r {
                    let m = e.get_sub_element_version_mask(idx).map(|m| m.to_string()).unwrap_or("none".into());
                    let mu = e.get_sub_element_multiplicity(idx).map(|m| mult_str(m).to_string()).unwrap_or("none".into());
                    let cm = mode_str(e.get_sub_element_container_mode(idx));
                    k.put(&format!("sub_info {} {}", ti.typ, natlist(idx)), &format!("ok {m} {mu} {cm}"), idx.len() > 1);
                    if pos > 0 && rng.chance(1, 4) {
                        let other = &listing[rng.below(pos)];
                        if let Some((_, idx2)) = e.find_sub_element(other.0, u32::MAX) {
                            let g = e.find_common_group(idx, &idx2);
                            k.put(&format!("common_group {} {} {}", ti.typ, natlist(idx), natlist(&idx2)), &format!("ok {}", mode_str(g.content_mode())), true);
                        }
                    }
                }
            }
        }
        // attributes
        let attrs: Vec<(AttributeName, &'static CharacterDataSpec, bool)> = e.attribute_spec_iter().collect();
        let mut parts = vec![];
        for (an, cs, rq) in &attrs {
            let spec = e.find_attribute_spec(*an);
            let ans = match &spec {
                Some(s) => format!("ok {} {} {}", cspec_str(s.spec, &side), s.required, s.version),
                None => "none".to_string(),
            };
            k.put(&format!("find_attr {} {}", ti.typ, id16(*an)), &ans, true);
            match &spec {
                None => k.fail(format!("type {}: listed attribute {an} not found by name", ti.typ)),
                Some(s) => {
                    if !attrs.iter().any(|(a2, c2, r2)| a2 == an && std::ptr::eq(*c2, s.spec) && *r2 == s.required) {
                        k.fail(format!("type {}: find_attribute_spec({an}) returns a spec that is not listed for it", ti.typ));
                    }
                }
            }
            parts.push(format!("{}:{}:{}", id16(*an), cspec_str(cs, &side), rq));
        }
        k.put(&format!("list_attrs {}", ti.typ), &format!("ok {} {}", attrs.len(), if parts.is_empty() { "-".to_string() } else { parts.join(";") }), !attrs.is_empty());
        if rng.chance(1, 3) {
            let an = unsafe { std::mem::transmute::<u16, AttributeName>(rng.below(side.n_attr) as u16) };
            let spec = e.find_attribute_spec(an);
            let ans = match &spec {
                Some(s) => format!("ok {} {} {}", cspec_str(s.spec, &side), s.required, s.version),
                None => "none".to_string(),
            };
            k.put(&format!("find_attr {} {}", ti.typ, id16(an)), &ans, true);
        }
    }
    // DEST values: every reference type x a sample (thorough: all) of the identifiable types
    for r in &ref_types {
        let targets: Vec<&&TypeInfo> = if thorough { named_types.iter().collect() } else { (0..24).map(|_| &named_types[rng.below(named_types.len())]).collect() };
        for t in targets {
            let d = r.ety.reference_dest_value(&t.ety);
            k.put(&format!("ref_dest {} {}", r.typ, t.typ), &match d { Some(x) => format!("ok {}", id16(x)), None => "none".into() }, d.is_some());
            k.stat(if d.is_some() { "ref_dest_some" } else { "ref_dest_none" });
            if let Some(dv) = d {
                if !t.ety.verify_reference_dest(dv) {
                    k.fail(format!("reference_dest_value({}, {}) = {dv} is not accepted by the target type", r.name, t.name));
                }
                let in_enum = match r.ety.find_attribute_spec(AttributeName::Dest).map(|s| s.spec) {
                    Some(CharacterDataSpec::Enum { items }) => items.iter().any(|(it, _)| *it == dv),
                    _ => false,
                };
                if !in_enum {
                    k.fail(format!("reference_dest_value({}, {}) = {dv} is not in the DEST enumeration of the reference", r.name, t.name));
                }
                k.put(&format!("verify_dest {} {}", t.typ, id16(dv)), &format!("ok {}", t.ety.verify_reference_dest(dv)), true);
            }
            let rd = unsafe { std::mem::transmute::<u16, EnumItem>(rng.below(side.n_enum) as u16) };
            k.put(&format!("verify_dest {} {}", t.typ, id16(rd)), &format!("ok {}", t.ety.verify_reference_dest(rd)), true);
        }
    }
    k.finish(out, "");
}

fn check_nonmember(k: &mut Sink, kind: char, s: &[u8], r: Option<u16>, _is_member: bool, n_items: u16) {
    // whatever is accepted must be exactly the text of the item returned
    if let Some(i) = r {
        if i >= n_items || to_str(kind, i).as_bytes() != s {
            k.fail(format!("{kind}: from_bytes accepts {:?} as item {i}, whose text is different", String::from_utf8_lossy(s)));
        }
    }
}

mod num_traits_shim {
    use autosar_data_specification::AutosarVersion;
    /// `from_val` takes a u32; values above u32::MAX can only be given through FromPrimitive, which the crate
    /// implements for AutosarVersion — reached here without depending on num-traits directly.
    pub fn from_u64(n: u64) -> Option<u32> {
        if n > u32::MAX as u64 {
            // FromPrimitive::from_u64 is not reachable without the num-traits crate in scope; the u32 entry point
            // covers the whole domain of `from_val`
            None
        } else {
            AutosarVersion::from_val(n as u32).map(|v| v as u32)
        }
    }
}
