//! `merge` scenario: property C09 (partial models loaded into one model), plus the load parts of C10 (remove_file on a
//! merged model) and C11 (a rejected load leaves the model unchanged).
//!
//! A random **master model** is built through the API in one file, read back into an own tree (`Node`), and a random
//! **split** sigma assigns every node a non-empty set of files (constant below parents that are not splittable in all
//! file versions, subsets only below splittable parents, root in all files).  `project` writes the document of one file
//! as text (own writer, own per-file sibling order).  Oracles (all against the own tree, not against the library):
//!  * union / exactly once / attribution: canonical dump of the merged model with effective `file_membership()` of
//!    every element == dump of the master annotated with sigma; no duplicate paths; path index == master paths;
//!  * per-file content: `f.serialize()` of every file of the merged model, loaded alone, == projection loaded alone;
//!  * order independence: the above for every load order (<= 24), dumps compared across orders; `sort()`ed merged
//!    model == `sort()`ed single-file master (order sensitive comparison);
//!  * C10: after `remove_file(f)` exactly the nodes with sigma == {f} are gone, their paths do not resolve, the other
//!    files serialize as before;
//!  * conflicts: (i) same path, two kinds; (ii) identifiable child missing in one file below a non-splittable parent:
//!    the load must fail and (C11) leave dump, path index, reference map and file list unchanged; the correct file
//!    must still load afterwards.
//!
//! Default sibling order per file: where the child order is free, kinds stay in schema order and the siblings of one
//! kind are permuted per file; unnamed siblings without a unique DEFINITION-REF keep their order and are never split.
//!
//! Master modes: `normal` (clean premise, ~93 %), and three rare ones that leave the part of the input space the
//! unchanged library handles; a failure there is reported with the signature only if it shows the mode's symptom:
//!  * `crosskind`: siblings of different kinds in a per-file order (bag parents) -> a shared element is duplicated:
//!    `[C09][sig=c09:out-of-order-sibling-duplicated]` (the known finding of the task);
//!  * `unkeyed`: several unnamed siblings without DEFINITION-REF (FIBEX-ELEMENT-REF-CONDITIONAL, ...) distributed over
//!    files below a splittable parent -> merged by position, elements lost / misattributed:
//!    `[C09][sig=c09:unkeyed-sibling-positional-merge]` (found here);
//!  * `ordered`: children of an ordered splittable parent (SUB-ELEMENTS of IMPLEMENTATION-DATA-TYPE) distributed over
//!    files -> their order in the merged model is the load order: `[C09][sig=c09:ordered-splittable-load-order]` (found here).
//! Conflict (ii) variants `model-extra-end` / `new-extra` (rare) are accepted by the unchanged library:
//! `[C09][sig=c09:nonsplittable-partial-child-accepted]` (found here); `model-extra-front` is rejected.
//!
//! Every failure is written to `<out>/fail_<n>.txt` (the files in load order, shrunk by deleting files and subtrees
//! while the same class of failure persists).  Request lines: `master ..` (one per master, answer `ok orders=n` /
//! `FAIL ..`), `rmfile ..`, `conflict1 ..`, `conflict1r ..`, `conflict2 ..` (answer `err <variant>` / `accepted`).
use crate::specwalk::ALL_VERSIONS;
use crate::util::*;
use autosar_data::*;
use autosar_data_specification::{CharacterDataSpec, ContentMode, ElementType};
use std::collections::{BTreeMap, BTreeSet};
use std::fmt::Write as _;
use std::panic::{catch_unwind, AssertUnwindSafe};
use std::str::FromStr;

const SIG_CROSSKIND: &str = "c09:out-of-order-sibling-duplicated";
const SIG_UNKEYED: &str = "c09:unkeyed-sibling-positional-merge";
const SIG_ORDERED: &str = "c09:ordered-splittable-load-order";
const SIG_PARTIAL: &str = "c09:nonsplittable-partial-child-accepted";

// ------------------------------------------------------------------------------------------------
// own tree
// ------------------------------------------------------------------------------------------------

#[derive(Clone)]
enum Item {
    Text(String),
    El(Node),
}

#[derive(Clone)]
struct Node {
    name: ElementName,
    ety: ElementType,
    attrs: Vec<(String, String)>,
    items: Vec<Item>,
    ident: Option<String>,
    /// schema position below the parent (all versions)
    idx: Vec<usize>,
    /// sigma: bit f set = the node is in file f
    files: u8,
    /// per-file sort key among the siblings (used where the parent's child order is free)
    ord: [u32; 4],
}

impl Node {
    fn els(&self) -> impl Iterator<Item = &Node> {
        self.items.iter().filter_map(|i| if let Item::El(n) = i { Some(n) } else { None })
    }
    fn els_mut(&mut self) -> impl Iterator<Item = &mut Node> {
        self.items.iter_mut().filter_map(|i| if let Item::El(n) = i { Some(n) } else { None })
    }
    fn text_of(&self, child: ElementName) -> Option<String> {
        self.els().find(|c| c.name == child).and_then(|c| c.items.iter().find_map(|i| if let Item::Text(t) = i { Some(t.clone()) } else { None }))
    }
    fn free_order(&self, loose: bool) -> bool {
        match self.ety.content_mode() {
            ContentMode::Characters | ContentMode::Mixed => false,
            _ => loose || !self.ety.is_ordered(),
        }
    }
    fn at(&self, path: &[usize]) -> &Node {
        let mut n = self;
        for p in path {
            if let Item::El(c) = &n.items[*p] { n = c } else { panic!("path") }
        }
        n
    }
    fn at_mut(&mut self, path: &[usize]) -> &mut Node {
        let mut n = self;
        for p in path {
            if let Item::El(c) = &mut n.items[*p] { n = c } else { panic!("path") }
        }
        n
    }
    fn count(&self) -> usize {
        1 + self.els().map(|c| c.count()).sum::<usize>()
    }
}

fn extract(e: &Element, parent: Option<&ElementType>) -> Node {
    let name = e.element_name();
    let ety = e.element_type();
    let idx = parent.and_then(|p| p.find_sub_element(name, u32::MAX)).map(|(_, i)| i).unwrap_or_default();
    let attrs = e.attributes().map(|a| (a.attrname.to_str().to_string(), a.content.to_string())).collect();
    let mut items = vec![];
    for c in e.content() {
        match c {
            ElementContent::Element(s) => items.push(Item::El(extract(&s, Some(&ety)))),
            ElementContent::CharacterData(cd) => items.push(Item::Text(cd.to_string())),
        }
    }
    let ident = if e.is_identifiable() { e.item_name() } else { None };
    Node { name, ety, attrs, items, ident, idx, files: 0, ord: [0; 4] }
}

fn esc(s: &str, out: &mut String) {
    for c in s.chars() {
        match c {
            '&' => out.push_str("&amp;"),
            '<' => out.push_str("&lt;"),
            '>' => out.push_str("&gt;"),
            '"' => out.push_str("&quot;"),
            c => out.push(c),
        }
    }
}

fn header(v: AutosarVersion) -> String {
    format!("<?xml version=\"1.0\" encoding=\"utf-8\"?>\n<AUTOSAR xsi:schemaLocation=\"http://autosar.org/schema/r4.0 {}\" xmlns=\"http://autosar.org/schema/r4.0\" xmlns:xsi=\"http://www.w3.org/2001/XMLSchema-instance\">", v.filename())
}

/// children of `n` that are in one of the files of `mask`, in the order file `f` writes them
fn child_order<'a>(n: &'a Node, mask: u8, f: usize, crosskind: bool) -> Vec<&'a Item> {
    let mut v: Vec<(usize, &Item)> = n.items.iter().enumerate().filter(|(_, i)| match i { Item::El(c) => c.files & mask != 0, Item::Text(_) => true }).collect();
    if n.free_order(false) {
        let bag = n.ety.content_mode() == ContentMode::Bag;
        v.sort_by(|(pa, a), (pb, b)| match (a, b) {
            (Item::El(x), Item::El(y)) => {
                if bag && crosskind {
                    x.ord[f].cmp(&y.ord[f]).then(pa.cmp(pb))
                } else {
                    x.idx.cmp(&y.idx).then(x.ord[f].cmp(&y.ord[f])).then(pa.cmp(pb))
                }
            }
            _ => pa.cmp(pb),
        });
    }
    v.into_iter().map(|(_, i)| i).collect()
}

fn write_node(n: &Node, f: usize, crosskind: bool, depth: usize, out: &mut String) {
    out.push('\n');
    for _ in 0..depth { out.push_str("  ") }
    out.push('<');
    out.push_str(n.name.to_str());
    for (a, v) in &n.attrs {
        out.push(' ');
        out.push_str(a);
        out.push_str("=\"");
        esc(v, out);
        out.push('"');
    }
    let items = child_order(n, 1 << f, f, crosskind);
    if items.is_empty() {
        out.push_str("/>");
        return;
    }
    out.push('>');
    let mut last_el = false;
    for i in items {
        match i {
            Item::Text(t) => { esc(t, out); last_el = false }
            Item::El(c) => { write_node(c, f, crosskind, depth + 1, out); last_el = true }
        }
    }
    if last_el {
        out.push('\n');
        for _ in 0..depth { out.push_str("  ") }
    }
    out.push_str("</");
    out.push_str(n.name.to_str());
    out.push('>');
}

/// the document of file `f`
fn project(root: &Node, f: usize, version: AutosarVersion, crosskind: bool) -> String {
    let mut out = header(version);
    for i in child_order(root, 1 << f, f, crosskind) {
        if let Item::El(c) = i { write_node(c, f, crosskind, 1, &mut out) }
    }
    out.push_str("\n</AUTOSAR>\n");
    out
}

fn files_str(mask: u8) -> String {
    (0..4).filter(|f| mask & (1 << f) != 0).map(|f| format!("f{f}.arxml")).collect::<Vec<_>>().join("+")
}

/// canonical dump of the part of the tree that is in one of the files of `keep`
fn dump_node(n: &Node, keep: u8, with_files: bool, loose: bool, is_root: bool, out: &mut String) {
    out.push('(');
    out.push_str(n.name.to_str());
    if !is_root {
        let mut a: Vec<String> = n.attrs.iter().map(|(k, v)| format!(" {k}={v}")).collect();
        a.sort();
        for x in a { out.push_str(&x) }
    }
    if with_files {
        out.push_str(" @");
        out.push_str(&files_str(n.files & keep));
    }
    let mut parts: Vec<String> = vec![];
    for i in &n.items {
        match i {
            Item::Text(t) => parts.push(format!(" \"{t}\"")),
            Item::El(c) => {
                if c.files & keep != 0 {
                    let mut s = String::new();
                    dump_node(c, keep, with_files, loose, false, &mut s);
                    parts.push(s);
                }
            }
        }
    }
    if n.free_order(loose) { parts.sort() }
    for p in parts { out.push_str(&p) }
    out.push(')');
}

fn dump_elem(e: &Element, with_files: bool, loose: bool, is_root: bool, out: &mut String) {
    out.push('(');
    out.push_str(e.element_name().to_str());
    if !is_root {
        let mut a: Vec<String> = e.attributes().map(|a| format!(" {}={}", a.attrname.to_str(), a.content)).collect();
        a.sort();
        for x in a { out.push_str(&x) }
    }
    if with_files {
        out.push_str(" @");
        match e.file_membership() {
            Ok((_, set)) => {
                let mut v: Vec<String> = set.iter().map(|w| w.upgrade().map(|f| f.filename().display().to_string()).unwrap_or_else(|| "?dead".into())).collect();
                v.sort();
                out.push_str(&v.join("+"));
            }
            Err(err) => { let _ = write!(out, "?{err:?}"); }
        }
    }
    let et = e.element_type();
    let free = match et.content_mode() {
        ContentMode::Characters | ContentMode::Mixed => false,
        _ => loose || !et.is_ordered(),
    };
    let mut parts: Vec<String> = vec![];
    for c in e.content() {
        match c {
            ElementContent::CharacterData(cd) => parts.push(format!(" \"{cd}\"")),
            ElementContent::Element(s) => {
                let mut t = String::new();
                dump_elem(&s, with_files, loose, false, &mut t);
                parts.push(t);
            }
        }
    }
    if free { parts.sort() }
    for p in parts { out.push_str(&p) }
    out.push(')');
}

fn mdump(m: &AutosarModel, with_files: bool, loose: bool) -> String {
    let mut s = String::new();
    dump_elem(&m.root_element(), with_files, loose, true, &mut s);
    s
}

fn ndump(root: &Node, keep: u8, with_files: bool, loose: bool) -> String {
    let mut s = String::new();
    dump_node(root, keep, with_files, loose, true, &mut s);
    s
}

/// paths of the identifiable nodes that are in one of the files of `keep`
fn node_paths(n: &Node, keep: u8, prefix: &str, out: &mut Vec<(String, u8)>) {
    for c in n.els() {
        if c.files & keep == 0 { continue }
        if let Some(id) = &c.ident {
            let p = format!("{prefix}/{id}");
            out.push((p.clone(), c.files & keep));
            node_paths(c, keep, &p, out);
        } else {
            node_paths(c, keep, prefix, out);
        }
    }
}

/// everything a rejected load must leave unchanged
fn state_dump(m: &AutosarModel) -> String {
    let mut s = mdump(m, true, false);
    let mut idx: Vec<String> = m.identifiable_elements().map(|(p, w)| format!("{p}={}", w.upgrade().map(|e| e.element_name().to_str()).unwrap_or("?dead"))).collect();
    idx.sort();
    let _ = write!(s, " index=[{}]", idx.join(","));
    let mut refs: Vec<String> = vec![];
    for (t, l) in m.verif_reference_origins() {
        let live = l.iter().filter(|w| w.upgrade().map(|e| e.path().is_ok() && e.model().is_ok()).unwrap_or(false)).count();
        if live > 0 { refs.push(format!("{t}:{live}")) }
    }
    refs.sort();
    let _ = write!(s, " refs=[{}]", refs.join(","));
    let files: Vec<String> = m.files().map(|f| format!("{}:{:?}", f.filename().display(), f.version())).collect();
    let _ = write!(s, " files=[{}]", files.join(","));
    s
}

// ------------------------------------------------------------------------------------------------
// master generator (through the API)
// ------------------------------------------------------------------------------------------------

struct Gen<'a> {
    rng: &'a mut Rng,
    targets: Vec<Element>,
    kinds: Vec<&'static str>,
    /// rare modes: prefer the element kind the mode is about
    bias: Option<usize>,
}

fn set_val(e: &Element, text: &str) -> bool {
    let cd = match e.element_type().chardata_spec() {
        Some(CharacterDataSpec::Enum { .. }) => match EnumItem::from_str(text) { Ok(i) => CharacterData::Enum(i), Err(_) => return false },
        Some(CharacterDataSpec::UnsignedInteger) => match text.parse::<u64>() { Ok(v) => CharacterData::UnsignedInteger(v), Err(_) => return false },
        Some(CharacterDataSpec::Float) => match text.parse::<f64>() { Ok(v) => CharacterData::Float(v), Err(_) => return false },
        Some(_) => CharacterData::String(text.to_string()),
        None => return false,
    };
    e.set_character_data(cd).is_ok()
}

impl<'a> Gen<'a> {
    fn named(&mut self, parent: &Element, en: ElementName, base: &str) -> Option<Element> {
        for _ in 0..4 {
            let nm = format!("{base}{}", self.rng.below(7));
            if let Ok(e) = parent.create_named_sub_element(en, &nm) {
                if self.rng.chance(1, 5) {
                    let _ = e.set_attribute_string(AttributeName::Uuid, &format!("{:08x}-u{}", self.rng.next() as u32, self.rng.below(100)));
                }
                self.targets.push(e.clone());
                return Some(e);
            }
        }
        None
    }
    fn sub(&mut self, parent: &Element, en: ElementName) -> Option<Element> {
        parent.create_sub_element(en).ok()
    }
    fn text(&mut self, parent: &Element, en: ElementName, val: &str) {
        if let Ok(e) = parent.create_sub_element(en) {
            if !set_val(&e, val) { let _ = parent.remove_sub_element(e); }
        }
    }
    /// a reference element: to a live element where the DEST check allows it, else dangling
    fn refer(&mut self, parent: &Element, en: ElementName, dests: &[&str]) {
        let Ok(r) = parent.create_sub_element(en) else { return };
        if !self.targets.is_empty() && self.rng.chance(3, 4) {
            for _ in 0..8 {
                let t = self.targets[self.rng.below(self.targets.len())].clone();
                if r.set_reference_target(&t).is_ok() { return }
            }
        }
        let d = dests[self.rng.below(dests.len())];
        let path = format!("/Ext{}/{}{}", self.rng.below(3), d.chars().take(3).collect::<String>(), self.rng.below(50));
        if r.set_attribute_string(AttributeName::Dest, d).is_ok() && r.set_character_data(CharacterData::String(path)).is_ok() { return }
        let _ = parent.remove_sub_element(r);
    }
    fn category(&mut self, e: &Element) {
        if self.rng.chance(1, 3) {
            let c = ["VALUE", "STRUCTURE", "CAT_A", "ECU_EXTRACT"][self.rng.below(4)];
            self.text(e, ElementName::Category, c);
        }
    }

    fn pkg(&mut self, pkgs: &Element, depth: usize) {
        let Some(p) = self.named(pkgs, ElementName::ArPackage, "Pk") else { return };
        self.category(&p);
        if self.rng.chance(4, 5) {
            if let Some(el) = self.sub(&p, ElementName::Elements) {
                let n = [0, 1, 2, 2, 3, 3, 4, 5][self.rng.below(8)];
                for _ in 0..n { self.element(&el) }
            }
        }
        if depth < 3 && self.rng.chance(2, 5) {
            if let Some(sp) = self.sub(&p, ElementName::ArPackages) {
                for _ in 0..1 + self.rng.below(2) { self.pkg(&sp, depth + 1) }
            }
        }
    }

    fn element(&mut self, el: &Element) {
        let k = match self.bias { Some(b) if self.rng.chance(1, 2) => b, _ => self.rng.below(15) };
        match k {
            0 => {
                if let Some(e) = self.named(el, ElementName::SystemSignal, "Sig") { self.kinds.push("SYSTEM-SIGNAL"); self.category(&e); }
            }
            1 => {
                if let Some(e) = self.named(el, ElementName::ISignal, "ISig") {
                    self.kinds.push("I-SIGNAL");
                    let l = self.rng.below(64).to_string();
                    self.text(&e, ElementName::Length, &l);
                    if self.rng.chance(1, 2) { self.refer(&e, ElementName::SystemSignalRef, &["SYSTEM-SIGNAL"]) }
                }
            }
            2 => {
                if let Some(e) = self.named(el, ElementName::SwBaseType, "Bt") {
                    self.kinds.push("SW-BASE-TYPE");
                    self.category(&e);
                    let l = [8, 16, 32][self.rng.below(3)].to_string();
                    self.text(&e, ElementName::BaseTypeSize, &l);
                }
            }
            3 => {
                if let Some(e) = self.named(el, ElementName::EcuInstance, "Ecu") {
                    self.kinds.push("ECU-INSTANCE");
                    if self.rng.chance(1, 2) { self.text(&e, ElementName::ComEnableMdtForCyclicTransmission, "true") }
                    if self.rng.chance(1, 2) {
                        if let Some(cc) = self.sub(&e, ElementName::CommControllers) {
                            for _ in 0..1 + self.rng.below(3) {
                                if self.rng.chance(2, 3) { self.named(&cc, ElementName::CanCommunicationController, "Can"); } else { self.named(&cc, ElementName::FlexrayCommunicationController, "Fr"); }
                            }
                        }
                    }
                    if self.rng.chance(1, 3) {
                        if let Some(cc) = self.sub(&e, ElementName::Connectors) {
                            for _ in 0..1 + self.rng.below(2) {
                                if let Some(c) = self.named(&cc, ElementName::CanCommunicationConnector, "Conn") { self.refer(&c, ElementName::CommControllerRef, &["CAN-COMMUNICATION-CONTROLLER"]) }
                            }
                        }
                    }
                    if self.rng.chance(1, 3) {
                        if let Some(ps) = self.sub(&e, ElementName::Partitions) {
                            for _ in 0..1 + self.rng.below(3) { self.named(&ps, ElementName::EcuPartition, "Part"); }
                        }
                    }
                }
            }
            4 => {
                if let Some(e) = self.named(el, ElementName::System, "Sys") {
                    self.kinds.push("SYSTEM");
                    self.category(&e);
                    if self.rng.chance(2, 3) {
                        if let Some(fe) = self.sub(&e, ElementName::FibexElements) {
                            for _ in 0..1 + self.rng.below(3) {
                                if let Some(c) = self.sub(&fe, ElementName::FibexElementRefConditional) { self.refer(&c, ElementName::FibexElementRef, &["ECU-INSTANCE", "I-SIGNAL", "I-SIGNAL-I-PDU"]) }
                            }
                        }
                    }
                    if self.rng.chance(1, 2) {
                        if let Some(mp) = self.sub(&e, ElementName::Mappings) {
                            for _ in 0..1 + self.rng.below(3) { self.named(&mp, ElementName::SystemMapping, "Map"); }
                        }
                    }
                    if self.rng.chance(1, 3) {
                        if let Some(rc) = self.sub(&e, ElementName::RootSoftwareCompositions) {
                            if let Some(r) = self.named(&rc, ElementName::RootSwCompositionPrototype, "Root") { self.refer(&r, ElementName::SoftwareCompositionTref, &["COMPOSITION-SW-COMPONENT-TYPE"]) }
                        }
                    }
                }
            }
            5 | 6 => {
                if let Some(e) = self.named(el, ElementName::EcucModuleConfigurationValues, "Cfg") {
                    self.kinds.push("ECUC-MODULE-CONFIGURATION-VALUES");
                    self.refer(&e, ElementName::DefinitionRef, &["ECUC-MODULE-DEF"]);
                    if self.rng.chance(4, 5) {
                        if let Some(cs) = self.sub(&e, ElementName::Containers) {
                            for _ in 0..1 + self.rng.below(3) { self.container(&cs, 0) }
                        }
                    }
                }
            }
            7 => {
                if let Some(e) = self.named(el, ElementName::ApplicationSwComponentType, "Swc") {
                    self.kinds.push("APPLICATION-SW-COMPONENT-TYPE");
                    if self.rng.chance(3, 4) { self.ports(&e) }
                    if self.rng.chance(1, 2) {
                        if let Some(ibs) = self.sub(&e, ElementName::InternalBehaviors) {
                            if let Some(ib) = self.named(&ibs, ElementName::SwcInternalBehavior, "Ib") {
                                if self.rng.chance(2, 3) {
                                    if let Some(rs) = self.sub(&ib, ElementName::Runnables) {
                                        for _ in 0..1 + self.rng.below(3) {
                                            if let Some(r) = self.named(&rs, ElementName::RunnableEntity, "Run") {
                                                if self.rng.chance(1, 2) { self.text(&r, ElementName::Symbol, "run_fn") }
                                            }
                                        }
                                    }
                                }
                                if self.rng.chance(1, 2) {
                                    if let Some(ev) = self.sub(&ib, ElementName::Events) {
                                        for _ in 0..1 + self.rng.below(2) {
                                            let (en, b) = if self.rng.chance(1, 2) { (ElementName::TimingEvent, "Te") } else { (ElementName::InitEvent, "Ie") };
                                            if let Some(t) = self.named(&ev, en, b) { self.refer(&t, ElementName::StartOnEventRef, &["RUNNABLE-ENTITY"]) }
                                        }
                                    }
                                }
                            }
                        }
                    }
                }
            }
            8 => {
                if let Some(e) = self.named(el, ElementName::CompositionSwComponentType, "Comp") {
                    self.kinds.push("COMPOSITION-SW-COMPONENT-TYPE");
                    if self.rng.chance(1, 2) { self.ports(&e) }
                    if self.rng.chance(2, 3) {
                        if let Some(cs) = self.sub(&e, ElementName::Components) {
                            for _ in 0..1 + self.rng.below(3) {
                                if let Some(c) = self.named(&cs, ElementName::SwComponentPrototype, "Proto") { self.refer(&c, ElementName::TypeTref, &["APPLICATION-SW-COMPONENT-TYPE"]) }
                            }
                        }
                    }
                }
            }
            9 => {
                if let Some(e) = self.named(el, ElementName::SenderReceiverInterface, "SrIf") {
                    self.kinds.push("SENDER-RECEIVER-INTERFACE");
                    if self.rng.chance(1, 3) { self.text(&e, ElementName::IsService, "false") }
                    if self.rng.chance(3, 4) {
                        if let Some(de) = self.sub(&e, ElementName::DataElements) {
                            for _ in 0..1 + self.rng.below(3) { self.named(&de, ElementName::VariableDataPrototype, "De"); }
                        }
                    }
                }
            }
            10 => {
                if let Some(e) = self.named(el, ElementName::ClientServerInterface, "CsIf") {
                    self.kinds.push("CLIENT-SERVER-INTERFACE");
                    if self.rng.chance(2, 3) {
                        if let Some(op) = self.sub(&e, ElementName::Operations) {
                            for _ in 0..1 + self.rng.below(3) { self.named(&op, ElementName::ClientServerOperation, "Op"); }
                        }
                    }
                    if self.rng.chance(1, 2) {
                        if let Some(pe) = self.sub(&e, ElementName::PossibleErrors) {
                            for _ in 0..1 + self.rng.below(3) {
                                if let Some(a) = self.named(&pe, ElementName::ApplicationError, "Err") {
                                    let c = self.rng.below(60).to_string();
                                    self.text(&a, ElementName::ErrorCode, &c);
                                }
                            }
                        }
                    }
                }
            }
            11 => {
                if let Some(e) = self.named(el, ElementName::ImplementationDataType, "Idt") {
                    self.kinds.push("IMPLEMENTATION-DATA-TYPE");
                    self.category(&e);
                    if self.rng.chance(2, 3) {
                        if let Some(se) = self.sub(&e, ElementName::SubElements) {
                            for _ in 0..1 + self.rng.below(3) {
                                if let Some(x) = self.named(&se, ElementName::ImplementationDataTypeElement, "Fld") { self.category(&x) }
                            }
                        }
                    }
                }
            }
            12 => {
                if let Some(e) = self.named(el, ElementName::ModeDeclarationGroup, "Mdg") {
                    self.kinds.push("MODE-DECLARATION-GROUP");
                    if self.rng.chance(3, 4) {
                        if let Some(md) = self.sub(&e, ElementName::ModeDeclarations) {
                            for _ in 0..1 + self.rng.below(4) { self.named(&md, ElementName::ModeDeclaration, "Mode"); }
                        }
                    }
                    if self.rng.chance(1, 2) { self.refer(&e, ElementName::InitialModeRef, &["MODE-DECLARATION"]) }
                }
            }
            13 => {
                if let Some(e) = self.named(el, ElementName::ISignalIPdu, "Pdu") {
                    self.kinds.push("I-SIGNAL-I-PDU");
                    let l = self.rng.below(64).to_string();
                    self.text(&e, ElementName::Length, &l);
                    if self.rng.chance(2, 3) {
                        if let Some(ms) = self.sub(&e, ElementName::ISignalToPduMappings) {
                            for _ in 0..1 + self.rng.below(3) {
                                if let Some(m) = self.named(&ms, ElementName::ISignalToIPduMapping, "Sm") {
                                    self.refer(&m, ElementName::ISignalRef, &["I-SIGNAL"]);
                                    let p = self.rng.below(64).to_string();
                                    self.text(&m, ElementName::StartPosition, &p);
                                }
                            }
                        }
                    }
                }
            }
            _ => {
                if let Some(e) = self.named(el, ElementName::EcucValueCollection, "Coll") {
                    self.kinds.push("ECUC-VALUE-COLLECTION");
                    if self.rng.chance(1, 2) { self.refer(&e, ElementName::EcuExtractRef, &["SYSTEM"]) }
                    if let Some(vs) = self.sub(&e, ElementName::EcucValues) {
                        for _ in 0..1 + self.rng.below(3) {
                            if let Some(c) = self.sub(&vs, ElementName::EcucModuleConfigurationValuesRefConditional) { self.refer(&c, ElementName::EcucModuleConfigurationValuesRef, &["ECUC-MODULE-CONFIGURATION-VALUES"]) }
                        }
                    }
                }
            }
        }
    }

    fn ports(&mut self, e: &Element) {
        if let Some(ps) = self.sub(e, ElementName::Ports) {
            for _ in 0..1 + self.rng.below(4) {
                if self.rng.chance(1, 2) {
                    if let Some(p) = self.named(&ps, ElementName::PPortPrototype, "PP") { if self.rng.chance(2, 3) { self.refer(&p, ElementName::ProvidedInterfaceTref, &["SENDER-RECEIVER-INTERFACE", "CLIENT-SERVER-INTERFACE"]) } }
                } else if let Some(p) = self.named(&ps, ElementName::RPortPrototype, "RP") {
                    if self.rng.chance(2, 3) { self.refer(&p, ElementName::RequiredInterfaceTref, &["SENDER-RECEIVER-INTERFACE", "CLIENT-SERVER-INTERFACE"]) }
                }
            }
        }
    }

    /// BSW container: children of PARAMETER-VALUES / REFERENCE-VALUES are keyed by (unique) DEFINITION-REF
    fn container(&mut self, cs: &Element, depth: usize) {
        let Some(c) = self.named(cs, ElementName::EcucContainerValue, "Ct") else { return };
        self.refer(&c, ElementName::DefinitionRef, &["ECUC-PARAM-CONF-CONTAINER-DEF"]);
        let mut used: BTreeSet<usize> = BTreeSet::new();
        if self.rng.chance(3, 4) {
            if let Some(pv) = self.sub(&c, ElementName::ParameterValues) {
                for _ in 0..1 + self.rng.below(4) {
                    let d = self.rng.below(12);
                    if !used.insert(d) { continue }
                    let num = self.rng.chance(1, 2);
                    let (en, dest) = if num { (ElementName::EcucNumericalParamValue, "ECUC-INTEGER-PARAM-DEF") } else { (ElementName::EcucTextualParamValue, "ECUC-ENUMERATION-PARAM-DEF") };
                    if let Some(p) = self.sub(&pv, en) {
                        self.defref(&p, dest, d);
                        let v = if num { self.rng.below(1000).to_string() } else { ["ON", "OFF", "AUTO"][self.rng.below(3)].to_string() };
                        if let Ok(ve) = p.create_sub_element(ElementName::Value) {
                            let _ = ve.set_character_data(CharacterData::String(v));
                        }
                    }
                }
            }
        }
        if self.rng.chance(1, 3) {
            if let Some(rv) = self.sub(&c, ElementName::ReferenceValues) {
                for _ in 0..1 + self.rng.below(2) {
                    let d = self.rng.below(12);
                    if !used.insert(d) { continue }
                    if let Some(p) = self.sub(&rv, ElementName::EcucReferenceValue) {
                        self.defref(&p, "ECUC-REFERENCE-DEF", d);
                        self.refer(&p, ElementName::ValueRef, &["ECUC-CONTAINER-VALUE"]);
                    }
                }
            }
        }
        if depth < 2 && self.rng.chance(1, 3) {
            if let Some(sc) = self.sub(&c, ElementName::SubContainers) {
                for _ in 0..1 + self.rng.below(2) { self.container(&sc, depth + 1) }
            }
        }
    }
    fn defref(&mut self, p: &Element, dest: &str, d: usize) {
        if let Ok(r) = p.create_sub_element(ElementName::DefinitionRef) {
            let _ = r.set_attribute_string(AttributeName::Dest, dest);
            let _ = r.set_character_data(CharacterData::String(format!("/Def/Mod/Ct/P{d}")));
        }
    }
}

#[derive(Clone, Copy, PartialEq, Eq, Debug)]
enum Mode {
    Normal,
    CrossKind,
    Unkeyed,
    Ordered,
}

#[derive(Clone)]
struct Case {
    root: Node,
    nfiles: usize,
    versions: Vec<AutosarVersion>,
    mode: Mode,
}

impl Case {
    fn all(&self) -> u8 { (1u8 << self.nfiles) - 1 }
    fn text(&self, f: usize) -> String { project(&self.root, f, self.versions[f], self.mode == Mode::CrossKind) }
    fn fname(f: usize) -> String { format!("f{f}.arxml") }
}

/// is the child keyed for the merge: identifiable, or the only sibling of its kind, or unique DEFINITION-REF
fn keyed_flags(n: &Node) -> Vec<bool> {
    let kids: Vec<&Node> = n.els().collect();
    kids.iter().map(|c| {
        if c.ident.is_some() { return true }
        let same: Vec<&&Node> = kids.iter().filter(|o| o.name == c.name).collect();
        if same.len() == 1 { return true }
        match c.text_of(ElementName::DefinitionRef) {
            Some(d) => same.iter().filter(|o| o.text_of(ElementName::DefinitionRef).as_deref() == Some(d.as_str())).count() == 1,
            None => false,
        }
    }).collect()
}

struct SplitCtx {
    /// version of every file: an element may be split among the files that hold it if it is splittable in all of THEIR versions
    versions: Vec<u32>,
    mode: Mode,
    permute: bool,
    p_shared: u64,
}

fn choose_subset(set: u8, rng: &mut Rng, ctx: &SplitCtx) -> u8 {
    if rng.chance(ctx.p_shared, 100) { return set }
    loop {
        let mut s = 0u8;
        for f in 0..4 {
            if set & (1 << f) != 0 && rng.chance(1, 2) { s |= 1 << f }
        }
        if s != 0 { return s }
    }
}

fn assign(n: &mut Node, set: u8, ctx: &SplitCtx, rng: &mut Rng) {
    n.files = set;
    let vm: u32 = (0..4).filter(|f| set & (1 << f) != 0).fold(0u32, |a, f| a | ctx.versions.get(f).copied().unwrap_or(0));
    let splittable = n.ety.splittable() & vm == vm;
    let ordered = n.ety.is_ordered();
    let keyed = keyed_flags(n);
    for (pos, c) in n.els_mut().enumerate() {
        let cset = if !splittable || c.name == ElementName::ShortName {
            set
        } else if ordered && ctx.mode != Mode::Ordered {
            set
        } else if !keyed[pos] && ctx.mode != Mode::Unkeyed {
            set
        } else {
            choose_subset(set, rng, ctx)
        };
        for f in 0..4 {
            c.ord[f] = if ctx.permute && keyed[pos] { 1 + (rng.next() % 0x7fff_fff0) as u32 } else { 1 + pos as u32 };
        }
        assign(c, cset, ctx, rng);
    }
}

fn gen_master(rng: &mut Rng, version: AutosarVersion, kinds: &mut Vec<&'static str>, bias: Option<usize>) -> Option<(Node, Vec<AutosarVersion>)> {
    let model = AutosarModel::new();
    let file = model.create_file("master.arxml", version).ok()?;
    let pkgs = model.root_element().create_sub_element(ElementName::ArPackages).ok()?;
    let mut g = Gen { rng, targets: vec![], kinds: vec![], bias };
    let n = 1 + g.rng.below(3);
    for _ in 0..n { g.pkg(&pkgs, 0) }
    kinds.append(&mut g.kinds);
    let compatible: Vec<AutosarVersion> = ALL_VERSIONS.iter().copied().filter(|v| file.check_version_compatibility(*v).0.is_empty()).collect();
    Some((extract(&model.root_element(), None), compatible))
}

// ------------------------------------------------------------------------------------------------
// oracles
// ------------------------------------------------------------------------------------------------

#[derive(Clone, Debug)]
struct Fail {
    class: &'static str,
    msg: String,
}

fn short(s: &str) -> String {
    if s.len() > 300 { format!("{}...", &s[..s.char_indices().take_while(|(i, _)| *i < 300).last().map(|(i, c)| i + c.len_utf8()).unwrap_or(0)]) } else { s.to_string() }
}

/// first position where two dumps differ, with some context
fn diff_at(a: &str, b: &str) -> String {
    let p = a.bytes().zip(b.bytes()).take_while(|(x, y)| x == y).count();
    let from = p.saturating_sub(60);
    let cut = |s: &str| -> String { s.char_indices().filter(|(i, _)| *i >= from && *i < p + 80).map(|(_, c)| c).collect() };
    format!("expected ..{} | actual ..{}", cut(a), cut(b))
}

fn load(m: &AutosarModel, text: &str, name: &str) -> Result<ArxmlFile, String> {
    m.load_buffer(text.as_bytes(), name, true).map(|(f, _)| f).map_err(|e| format!("{e:?}"))
}

struct Merged {
    model: AutosarModel,
    files: Vec<(usize, ArxmlFile)>,
}

fn load_order(case: &Case, texts: &[String], order: &[usize]) -> Result<Merged, Fail> {
    let model = AutosarModel::new();
    let mut files = vec![];
    for f in order {
        match load(&model, &texts[*f], &Case::fname(*f)) {
            Ok(af) => files.push((*f, af)),
            Err(e) => return Err(Fail { class: "load", msg: format!("loading {} (position {} of order {:?}, {} files) into the merged model fails: {}", Case::fname(*f), files.len(), order, case.nfiles, short(&e)) }),
        }
    }
    Ok(Merged { model, files })
}

fn keep_of(order: &[usize]) -> u8 { order.iter().fold(0u8, |a, f| a | (1 << f)) }

/// duplicated siblings (same kind and same name / definition ref) anywhere in the model
fn has_dup_siblings(m: &AutosarModel) -> Option<String> {
    for (_, e) in m.elements_dfs() {
        let mut seen: BTreeSet<String> = BTreeSet::new();
        for c in e.sub_elements() {
            let key = if let Some(n) = c.item_name() { Some(format!("{} {}", c.element_name(), n)) } else { c.get_sub_element(ElementName::DefinitionRef).and_then(|d| d.character_data()).map(|d| format!("{} {}", c.element_name(), d)) };
            if let Some(k) = key {
                if !seen.insert(k.clone()) { return Some(format!("{} twice below {}", k, e.xml_path())) }
            }
        }
    }
    None
}

/// union, exactly-once, attribution, index, per-file content, sort; returns the failures and the attribution dump
fn check_union(case: &Case, texts: &[String], order: &[usize], alone: &[String], sorted_master: &str) -> (Vec<Fail>, String) {
    let mut fails = vec![];
    let keep = keep_of(order);
    let mg = match load_order(case, texts, order) {
        Ok(m) => m,
        Err(f) => return (vec![f], String::new()),
    };
    let m = &mg.model;
    let exp_full = ndump(&case.root, keep, true, false);
    let act_full = mdump(m, true, false);
    if exp_full != act_full {
        let exp_c = ndump(&case.root, keep, false, false);
        let act_c = mdump(m, false, false);
        if exp_c != act_c {
            let only_order = ndump(&case.root, keep, false, true) == mdump(m, false, true);
            fails.push(Fail { class: if only_order { "union-order" } else { "union" }, msg: format!("merged content differs from the master (order {:?}): {}", order, diff_at(&exp_c, &act_c)) });
        } else {
            fails.push(Fail { class: "attribution", msg: format!("file_membership of the merged model differs from the split (order {:?}): {}", order, diff_at(&exp_full, &act_full)) });
        }
    }
    // exactly once: paths
    let mut exp_paths = vec![];
    node_paths(&case.root, keep, "", &mut exp_paths);
    let mut exp_set: Vec<String> = exp_paths.iter().map(|(p, _)| p.clone()).collect();
    exp_set.sort();
    let mut tree_paths: Vec<String> = m.elements_dfs().filter(|(_, e)| e.is_identifiable()).filter_map(|(_, e)| e.path().ok()).collect();
    tree_paths.sort();
    if let Some(w) = tree_paths.windows(2).find(|w| w[0] == w[1]) {
        fails.push(Fail { class: "dup", msg: format!("path {} occurs more than once in the merged model (order {:?})", w[0], order) });
    } else if tree_paths != exp_set {
        fails.push(Fail { class: "paths", msg: format!("identifiable elements of the merged tree differ from the master: {} vs {} paths (order {:?})", tree_paths.len(), exp_set.len(), order) });
    }
    let mut index: Vec<String> = m.identifiable_elements().map(|(p, _)| p).collect();
    index.sort();
    if index != exp_set {
        fails.push(Fail { class: "index", msg: format!("identifiable_elements() of the merged model differs from the master paths: {} vs {} (order {:?})", index.len(), exp_set.len(), order) });
    }
    for p in &exp_set {
        match m.get_element_by_path(p) {
            Some(e) if e.path().ok().as_deref() == Some(p.as_str()) => {}
            _ => { fails.push(Fail { class: "resolve", msg: format!("path {p} of the master does not resolve in the merged model (order {:?})", order) }); break }
        }
    }
    // per-file content
    for (f, af) in &mg.files {
        fn count_in(n: &Node, mask: u8) -> usize { if n.files & mask == 0 { 0 } else { 1 + n.els().map(|c| count_in(c, mask)).sum::<usize>() } }
        let want = count_in(&case.root, 1 << f);
        let got = af.elements_dfs().count();
        if want != got {
            fails.push(Fail { class: "perfile-dfs", msg: format!("{}.elements_dfs() of the merged model (order {:?}) yields {got} elements, the file has {want}", Case::fname(*f), order) });
        }
        match af.serialize() {
            Err(e) => fails.push(Fail { class: "perfile", msg: format!("{} of the merged model does not serialize: {e:?}", Case::fname(*f)) }),
            Ok(text) => {
                let m2 = AutosarModel::new();
                match load(&m2, &text, &Case::fname(*f)) {
                    Err(e) => fails.push(Fail { class: "perfile", msg: format!("{} serialized from the merged model (order {:?}) does not load on its own: {}", Case::fname(*f), order, short(&e)) }),
                    Ok(af2) => {
                        let d = mdump(&m2, false, false);
                        if d != alone[*f] {
                            let only_order = mdump(&m2, false, true) == ndump(&case.root, 1 << f, false, true);
                            fails.push(Fail { class: if only_order { "perfile-order" } else { "perfile" }, msg: format!("{} serialized from the merged model (order {:?}) differs from the file loaded on its own: {}", Case::fname(*f), order, diff_at(&alone[*f], &d)) });
                        }
                        if af2.version() != case.versions[*f] {
                            fails.push(Fail { class: "perfile", msg: format!("{} serialized from the merged model has version {:?}, the file has {:?}", Case::fname(*f), af2.version(), case.versions[*f]) });
                        }
                    }
                }
            }
        }
    }
    // library sort(): order sensitive comparison with the sorted single-file master
    if keep == case.all() && !sorted_master.is_empty() {
        m.sort();
        let raw = raw_dump(m);
        if raw != sorted_master && fails.is_empty() {
            fails.push(Fail { class: "sort", msg: format!("the sort()ed merged model differs from the sort()ed master although the content is equal (order {:?}): {}", order, diff_at(sorted_master, &raw)) });
        }
        if mdump(m, true, false) != act_full {
            fails.push(Fail { class: "sort", msg: format!("sort() changes content or file membership of the merged model (order {:?})", order) });
        }
    }
    (fails, act_full)
}

/// order-sensitive dump (no canonical sorting at all)
fn raw_dump(m: &AutosarModel) -> String {
    fn go(e: &Element, root: bool, out: &mut String) {
        out.push('(');
        out.push_str(e.element_name().to_str());
        if !root {
            for a in e.attributes() { let _ = write!(out, " {}={}", a.attrname.to_str(), a.content); }
        }
        for c in e.content() {
            match c {
                ElementContent::CharacterData(cd) => { let _ = write!(out, " \"{cd}\""); }
                ElementContent::Element(s) => go(&s, false, out),
            }
        }
        out.push(')');
    }
    let mut s = String::new();
    go(&m.root_element(), true, &mut s);
    s
}

/// C10 on the merged model
fn check_rmfile(case: &Case, texts: &[String], order: &[usize], f: usize, alone: &[String]) -> Vec<Fail> {
    let mut fails = vec![];
    let keep = keep_of(order);
    let mg = match load_order(case, texts, order) {
        Ok(m) => m,
        Err(f) => return vec![f],
    };
    let m = &mg.model;
    let Some((_, target)) = mg.files.iter().find(|(g, _)| *g == f) else { return fails };
    m.remove_file(target);
    let rest = keep & !(1 << f);
    let exp = ndump(&case.root, rest, true, false);
    let act = mdump(m, true, false);
    if exp != act {
        let content = ndump(&case.root, rest, false, false) != mdump(m, false, false);
        fails.push(Fail { class: "rmfile", msg: format!("after remove_file({}) on the merged model (order {:?}) the {} differs from the master without the elements exclusive to that file: {}", Case::fname(f), order, if content { "content" } else { "file membership" }, diff_at(&exp, &act)) });
    }
    let mut all_paths = vec![];
    node_paths(&case.root, keep, "", &mut all_paths);
    for (p, fs) in &all_paths {
        let gone = *fs == 1 << f;
        let res = m.get_element_by_path(p).is_some();
        if gone == res {
            fails.push(Fail { class: "rmfile", msg: format!("after remove_file({}) path {p} (in files {}) {}", Case::fname(f), files_str(*fs), if res { "still resolves" } else { "no longer resolves" }) });
            break;
        }
    }
    let mut index: Vec<String> = m.identifiable_elements().map(|(p, _)| p).collect();
    index.sort();
    let mut exp_idx: Vec<String> = all_paths.iter().filter(|(_, fs)| *fs != 1 << f).map(|(p, _)| p.clone()).collect();
    exp_idx.sort();
    if index != exp_idx {
        fails.push(Fail { class: "rmfile", msg: format!("after remove_file({}) identifiable_elements() has {} paths, expected {}", Case::fname(f), index.len(), exp_idx.len()) });
    }
    if m.files().count() != mg.files.len() - 1 || m.files().any(|x| x.filename().display().to_string() == Case::fname(f)) {
        fails.push(Fail { class: "rmfile", msg: format!("after remove_file({}) files() is wrong", Case::fname(f)) });
    }
    // content of every other file unchanged (the text may differ in `<X>\n</X>` vs `<X/>` for an element whose
    // children all belonged to the removed file, so the comparison is on the loaded content)
    for (g, af) in mg.files.iter().filter(|(g, _)| *g != f) {
        let d = match af.serialize() {
            Err(e) => format!("serialize: {e:?}"),
            Ok(text) => {
                let m2 = AutosarModel::new();
                match load(&m2, &text, &Case::fname(*g)) {
                    Ok(_) => mdump(&m2, false, false),
                    Err(e) => format!("load: {}", short(&e)),
                }
            }
        };
        if d != alone[*g] {
            fails.push(Fail { class: "rmfile", msg: format!("after remove_file({}) the content of {} changed: {}", Case::fname(f), Case::fname(*g), diff_at(&alone[*g], &d)) });
            break;
        }
    }
    fails
}

#[derive(Clone, Copy, PartialEq, Eq)]
enum Oracle {
    Union,
    Rm(usize),
}

/// projections that load on their own, their dumps, and the sorted single-file master
struct Prepared {
    texts: Vec<String>,
    alone: Vec<String>,
    sorted_master: String,
}

fn prepare(case: &Case, with_sorted: bool) -> Result<Prepared, String> {
    let mut texts = vec![];
    let mut alone = vec![];
    for f in 0..case.nfiles {
        let t = case.text(f);
        let m = AutosarModel::new();
        load(&m, &t, &Case::fname(f)).map_err(|e| format!("projection f{f} does not load on its own: {e}\n{t}"))?;
        let d = mdump(&m, false, false);
        let e = ndump(&case.root, 1 << f, false, false);
        if d != e { return Err(format!("projection f{f} loaded on its own differs from the tree: {}\n{t}", diff_at(&e, &d))) }
        alone.push(d);
        texts.push(t);
    }
    let mut sorted_master = String::new();
    if with_sorted && case.mode == Mode::Normal {
        let mut one = case.clone();
        fn all_files(n: &mut Node, set: u8) { n.files = set; for c in n.els_mut() { all_files(c, set) } }
        all_files(&mut one.root, 1);
        let t = project(&one.root, 0, case.versions[0], false);
        let m = AutosarModel::new();
        load(&m, &t, "master.arxml").map_err(|e| format!("the master does not load on its own: {e}\n{t}"))?;
        m.sort();
        sorted_master = raw_dump(&m);
    }
    Ok(Prepared { texts, alone, sorted_master })
}

fn run_oracle(case: &Case, order: &[usize], oracle: Oracle) -> Result<Vec<Fail>, String> {
    let p = prepare(case, oracle == Oracle::Union)?;
    let r = catch_unwind(AssertUnwindSafe(|| match oracle {
        Oracle::Union => check_union(case, &p.texts, order, &p.alone, &p.sorted_master).0,
        Oracle::Rm(f) => check_rmfile(case, &p.texts, order, f, &p.alone),
    }));
    Ok(r.unwrap_or_else(|_| vec![Fail { class: "panic", msg: "panic".into() }]))
}

/// delete subtrees while `test` still holds (large subtrees first, repeated until nothing changes)
fn shrink_tree(case: &Case, keep: u8, budget: &mut usize, test: &dyn Fn(&Case) -> bool) -> Case {
    let mut cur = case.clone();
    loop {
        let mut changed = false;
        let mut paths: Vec<Vec<usize>> = vec![];
        fn collect(n: &Node, keep: u8, pre: &mut Vec<usize>, out: &mut Vec<Vec<usize>>) {
            for (i, it) in n.items.iter().enumerate() {
                if let Item::El(c) = it {
                    pre.push(i);
                    collect(c, keep, pre, out);
                    if c.name != ElementName::ShortName && c.name != ElementName::DefinitionRef && c.files & keep != 0 { out.push(pre.clone()) }
                    pre.pop();
                }
            }
        }
        collect(&cur.root, keep, &mut vec![], &mut paths);
        paths.sort_by_key(|p| std::cmp::Reverse(cur.root.at(p).count()));
        let mut removed: Vec<Vec<usize>> = vec![];
        for p in paths {
            if *budget == 0 { return cur }
            // skip paths invalidated by an earlier removal in this pass (inside a removed subtree, or shifted by it)
            if removed.iter().any(|r| r.len() <= p.len() && r[..r.len() - 1] == p[..r.len() - 1] && r[r.len() - 1] <= p[r.len() - 1]) { continue }
            let mut c2 = cur.clone();
            let (last, pre) = p.split_last().unwrap();
            c2.root.at_mut(pre).items.remove(*last);
            *budget -= 1;
            if test(&c2) {
                cur = c2;
                removed.push(p);
                changed = true;
            }
        }
        if !changed { break }
    }
    cur
}

/// fewer files, then fewer elements, while the same class of failure persists
fn shrink(case: &Case, order: &[usize], oracle: Oracle, class: &str, budget: &mut usize) -> (Case, Vec<usize>) {
    let mut ord: Vec<usize> = order.to_vec();
    let same = |c: &Case, o: &[usize]| -> bool { matches!(run_oracle(c, o, oracle), Ok(f) if f.iter().any(|x| x.class == class)) };
    let mut i = 0;
    while ord.len() > 2 && i < ord.len() {
        if *budget == 0 { break }
        if let Oracle::Rm(f) = oracle { if ord[i] == f { i += 1; continue } }
        let mut o2 = ord.clone();
        o2.remove(i);
        *budget -= 1;
        if same(case, &o2) { ord = o2 } else { i += 1 }
    }
    let cur = shrink_tree(case, keep_of(&ord), budget, &|c| same(c, &ord));
    (cur, ord)
}

// ------------------------------------------------------------------------------------------------
// reporting
// ------------------------------------------------------------------------------------------------

struct Rep {
    out: String,
    nfail: usize,
    shrink_budget_cases: usize,
}

impl Rep {
    fn write_case(&mut self, title: &str, case: &Case, order: &[usize], extra: &str) -> String {
        let name = format!("fail_{}.txt", self.nfail);
        self.nfail += 1;
        let mut s = String::new();
        let _ = writeln!(s, "# {title}");
        let _ = writeln!(s, "# mode {:?}; load order {:?}; each section below is one file (load them with load_buffer(.., strict=true) in the given order)", case.mode, order.iter().map(|f| Case::fname(*f)).collect::<Vec<_>>());
        for f in order {
            let _ = writeln!(s, "##### {} ({:?})", Case::fname(*f), case.versions[*f]);
            s.push_str(&case.text(*f));
        }
        let _ = writeln!(s, "##### expected merged model (element names, attributes, @files, values)");
        let _ = writeln!(s, "{}", ndump(&case.root, keep_of(order), true, false));
        if !extra.is_empty() { let _ = writeln!(s, "##### {extra}"); }
        let _ = std::fs::write(format!("{}/{}", self.out, name), s);
        name
    }
    fn write_docs(&mut self, title: &str, docs: &[(String, String)], extra: &str) -> String {
        let name = format!("fail_{}.txt", self.nfail);
        self.nfail += 1;
        let mut s = String::new();
        let _ = writeln!(s, "# {title}");
        let _ = writeln!(s, "# load the sections in this order with load_buffer(.., strict=true)");
        for (n, t) in docs {
            let _ = writeln!(s, "##### {n}");
            s.push_str(t);
        }
        if !extra.is_empty() { let _ = writeln!(s, "##### {extra}"); }
        let _ = std::fs::write(format!("{}/{}", self.out, name), s);
        name
    }
}

fn report(k: &mut Sink, rep: &mut Rep, case: &Case, order: &[usize], oracle: Oracle, fails: &[Fail], sig: Option<&str>) {
    if fails.is_empty() { return }
    let first = &fails[0];
    let (c2, o2) = if rep.shrink_budget_cases > 0 && first.class != "panic" {
        rep.shrink_budget_cases -= 1;
        let mut budget = 500usize;
        shrink(case, order, oracle, first.class, &mut budget)
    } else {
        (case.clone(), order.to_vec())
    };
    // message of the shrunk case (same class)
    let msg = run_oracle(&c2, &o2, oracle).ok().and_then(|f| f.into_iter().find(|x| x.class == first.class)).map(|f| f.msg).unwrap_or_else(|| first.msg.clone());
    let classes: BTreeSet<&str> = fails.iter().map(|f| f.class).collect();
    let file = rep.write_case(&format!("{} [{}] {}", sig.unwrap_or("-"), first.class, msg), &c2, &o2, &format!("all failure classes of the unshrunk case: {classes:?}"));
    let prop = match oracle { Oracle::Union => "C09", Oracle::Rm(_) => "C10" };
    k.stat(&format!("fail_class_{}", first.class));
    match sig {
        Some(s) => k.fail(format!("[{prop}][sig={s}] merge of partial files: {} ({}) replay={file}", first.class, short(&msg))),
        None => k.fail(format!("[{prop}] {}: {} replay={file}", first.class, short(&msg))),
    }
    if classes.contains("panic") {
        k.fail(format!("[C12] panic while loading / checking partial files replay={file}"));
    }
}

/// signature of a failure in one of the rare modes, if it shows that mode's characteristic symptom
fn mode_sig(case: &Case, texts: &[String], order: &[usize], fails: &[Fail]) -> Option<&'static str> {
    match case.mode {
        Mode::Normal => None,
        Mode::CrossKind => {
            let mg = load_order(case, texts, order).ok()?;
            has_dup_siblings(&mg.model).map(|_| SIG_CROSSKIND)
        }
        Mode::Unkeyed => if fails.iter().any(|f| matches!(f.class, "union" | "attribution" | "perfile")) { Some(SIG_UNKEYED) } else { None },
        Mode::Ordered => if fails.iter().all(|f| matches!(f.class, "union-order" | "perfile-order" | "order")) { Some(SIG_ORDERED) } else { None },
    }
}

fn permutations(n: usize) -> Vec<Vec<usize>> {
    fn go(cur: &mut Vec<usize>, used: &mut Vec<bool>, n: usize, out: &mut Vec<Vec<usize>>) {
        if cur.len() == n { out.push(cur.clone()); return }
        for i in 0..n {
            if !used[i] {
                used[i] = true;
                cur.push(i);
                go(cur, used, n, out);
                cur.pop();
                used[i] = false;
            }
        }
    }
    let mut out = vec![];
    go(&mut vec![], &mut vec![false; n], n, &mut out);
    out
}

fn shuffle<T>(v: &mut [T], rng: &mut Rng) {
    for i in (1..v.len()).rev() {
        let j = rng.below(i + 1);
        v.swap(i, j);
    }
}

fn hash_texts(t: &[String]) -> u64 {
    use std::hash::{Hash, Hasher};
    let mut h = std::collections::hash_map::DefaultHasher::new();
    t.hash(&mut h);
    h.finish()
}

// ------------------------------------------------------------------------------------------------
// conflicts
// ------------------------------------------------------------------------------------------------

fn find_nodes(n: &Node, pre: &mut Vec<usize>, pred: &dyn Fn(&Node, &Node) -> bool, out: &mut Vec<Vec<usize>>) {
    for (i, it) in n.items.iter().enumerate() {
        if let Item::El(c) = it {
            pre.push(i);
            if pred(n, c) { out.push(pre.clone()) }
            find_nodes(c, pre, pred, out);
            pre.pop();
        }
    }
}

fn mk_named(parent: &Node, kind: ElementName, name: &str, files: u8, ord: u32) -> Option<Node> {
    let (ety, idx) = parent.ety.find_sub_element(kind, u32::MAX)?;
    let (sety, sidx) = ety.find_sub_element(ElementName::ShortName, u32::MAX)?;
    let sn = Node { name: ElementName::ShortName, ety: sety, attrs: vec![], items: vec![Item::Text(name.to_string())], ident: None, idx: sidx, files, ord: [1; 4] };
    Some(Node { name: kind, ety, attrs: vec![], items: vec![Item::El(sn)], ident: Some(name.to_string()), idx, files, ord: [ord; 4] })
}

/// load the files `first` of `c2`, then file `b` of `c2` (which must be rejected).  After a rejected load: state
/// unchanged (C11), and (`good`) the correct file `b` of the original case still loads and yields the master.
fn conflict_outcome(c2: &Case, first: &[usize], b: usize, good: Option<&Case>) -> (String, Vec<String>) {
    let r = catch_unwind(AssertUnwindSafe(|| -> (String, Vec<String>) {
        let mut problems = vec![];
        let m = AutosarModel::new();
        for f in first {
            if let Err(e) = load(&m, &c2.text(*f), &Case::fname(*f)) { return ("setup-failed".into(), vec![format!("SETUP {e}")]) }
        }
        let before = state_dump(&m);
        let res = m.load_buffer(c2.text(b).as_bytes(), Case::fname(b), true);
        let ans;
        match res {
            Ok(_) => {
                ans = "accepted".to_string();
                problems.push("ACCEPTED load_buffer returns Ok".to_string());
            }
            Err(e) => {
                let kind = format!("{e:?}");
                let kind = kind.split([' ', '{', '(']).next().unwrap_or("").to_string();
                ans = format!("err {kind}");
                let after = state_dump(&m);
                if after != before {
                    problems.push(format!("CHANGED the rejected load ({kind}) changed the model: {}", diff_at(&before, &after)));
                }
                if let Some(orig) = good {
                    match load(&m, &orig.text(b), &Case::fname(b)) {
                        Err(e) => problems.push(format!("CHANGED after the rejected load the correct {} is rejected too: {}", Case::fname(b), short(&e))),
                        Ok(_) => {
                            let keep = keep_of(first) | (1 << b);
                            let exp = ndump(&orig.root, keep, true, false);
                            let act = mdump(&m, true, false);
                            if exp != act { problems.push(format!("CHANGED after the rejected load, loading the correct {} gives a model different from the master: {}", Case::fname(b), diff_at(&exp, &act))) }
                        }
                    }
                }
            }
        }
        (ans, problems)
    }));
    r.unwrap_or_else(|_| ("panic".into(), vec!["PANIC".into()]))
}

fn has_ident(n: &Node, name: &str, mask: u8) -> bool {
    n.els().any(|c| (c.ident.as_deref() == Some(name) && c.files & mask != 0) || has_ident(c, name, mask))
}

#[allow(clippy::too_many_arguments)]
fn conflict_case(k: &mut Sink, rep: &mut Rep, c2: &Case, first: &[usize], b: usize, good: Option<&Case>, what: &str, accept_sig: Option<&str>, req: &str, marker: &str) {
    let (ans, problems) = conflict_outcome(c2, first, b, good);
    k.put(req, &ans, true);
    k.stat(&format!("{}_{}", req.split(' ').take(2).collect::<Vec<_>>().join("_"), ans.split(' ').next().unwrap_or("")));
    if problems.iter().any(|p| p.starts_with("SETUP")) { k.stat("conflict_setup_failed"); return }
    if problems.is_empty() { return }
    // shrink: the conflicting element (`marker`) stays, everything else may go while the first problem persists
    let tag = problems[0].split(' ').next().unwrap_or("").to_string();
    let mut shown = c2.clone();
    let mut first: Vec<usize> = first.to_vec();
    if rep.shrink_budget_cases > 0 && tag != "PANIC" {
        rep.shrink_budget_cases -= 1;
        let mut budget = 400usize;
        // fewer files first (the marker must stay present among the remaining ones if it was)
        let mut i = 0;
        while first.len() > 1 && i < first.len() {
            let mut f2 = first.clone();
            f2.remove(i);
            if has_ident(&c2.root, marker, keep_of(&f2)) == has_ident(&c2.root, marker, keep_of(&first)) && conflict_outcome(c2, &f2, b, None).1.iter().any(|p| p.starts_with(&tag)) { first = f2 } else { i += 1 }
        }
        let first = &first;
        let keep = keep_of(first) | (1 << b);
        let others = keep_of(first);
        shown = shrink_tree(c2, keep, &mut budget, &|c: &Case| {
            // the marker must remain on both sides of the conflict as designed, and all files must load on their own
            has_ident(&c.root, marker, 1 << b) == has_ident(&c2.root, marker, 1 << b)
                && has_ident(&c.root, marker, others) == has_ident(&c2.root, marker, others)
                && (0..c.nfiles).filter(|f| keep & (1 << f) != 0).all(|f| load(&AutosarModel::new(), &c.text(f), "x.arxml").is_ok())
                && conflict_outcome(c, first, b, None).1.iter().any(|p| p.starts_with(&tag))
        });
    }
    let mut docs: Vec<(String, String)> = first.iter().map(|f| (Case::fname(*f), shown.text(*f))).collect();
    docs.push((format!("{}   <- must be rejected", Case::fname(b)), shown.text(b)));
    let file = rep.write_docs(&format!("{what}: {}", problems.join(" | ")), &docs, "");
    for p in &problems {
        if p.starts_with("ACCEPTED") {
            match accept_sig {
                Some(s) => k.fail(format!("[C09][sig={s}] conflicting file accepted: {what} replay={file}")),
                None => k.fail(format!("[C09] conflicting file accepted: {what} replay={file}")),
            }
        } else if p.starts_with("CHANGED") {
            k.fail(format!("[C11] rejected load_buffer is not atomic: {} ({what}) replay={file}", short(p)));
        } else {
            k.fail(format!("[C12] panic in load_buffer of a conflicting file ({what}) replay={file}"));
            k.fail(format!("[C09] panic in load_buffer of a conflicting file ({what}) replay={file}"));
        }
    }
}

fn conflicts(k: &mut Sink, rep: &mut Rep, rng: &mut Rng, case: &Case, texts: &[String], mi: usize) {
    // (i) same path, two kinds
    let mut cands = vec![];
    find_nodes(&case.root, &mut vec![], &|p, c| p.name == ElementName::Elements && c.ident.is_some() && p.files.count_ones() >= 2, &mut cands);
    if !cands.is_empty() {
        let xp = cands[rng.below(cands.len())].clone();
        let x = case.root.at(&xp).clone();
        let (xlast, ppath) = xp.split_last().unwrap();
        let parent = case.root.at(ppath);
        // b: a file of the parent such that X is also in some other file
        let bs: Vec<usize> = (0..case.nfiles).filter(|b| parent.files & (1 << b) != 0 && x.files & !(1u8 << b) != 0).collect();
        if !bs.is_empty() {
            let b = bs[rng.below(bs.len())];
            let variant = rng.below(2);
            let mut c2 = case.clone();
            let name = x.ident.clone().unwrap();
            let ok = if variant == 0 {
                // another kind with the same name in the same ELEMENTS
                let kind = if x.name == ElementName::SystemSignal { ElementName::Unit } else { ElementName::SystemSignal };
                let pm = c2.root.at_mut(ppath);
                match mk_named(pm, kind, &name, 1 << b, 5) {
                    Some(n) => {
                        if let Item::El(xm) = &mut pm.items[*xlast] { xm.files &= !(1u8 << b) }
                        pm.items.push(Item::El(n));
                        true
                    }
                    None => false,
                }
            } else {
                // a sub-package with the same path
                let (_, pkgpath) = ppath.split_last().unwrap();
                let pkg = c2.root.at_mut(pkgpath);
                if let Item::El(el) = &mut pkg.items[*ppath.last().unwrap()] {
                    if let Item::El(xm) = &mut el.items[*xlast] { xm.files &= !(1u8 << b) }
                }
                if pkg.els().all(|c| c.name != ElementName::ArPackages) {
                    if let Some((ety, idx)) = pkg.ety.find_sub_element(ElementName::ArPackages, u32::MAX) {
                        pkg.items.push(Item::El(Node { name: ElementName::ArPackages, ety, attrs: vec![], items: vec![], ident: None, idx, files: 1 << b, ord: [1; 4] }));
                    }
                }
                match pkg.els_mut().find(|c| c.name == ElementName::ArPackages) {
                    Some(sp) => match mk_named(sp, ElementName::ArPackage, &name, 1 << b, 5) {
                        Some(n) => { sp.items.push(Item::El(n)); true }
                        None => false,
                    },
                    None => false,
                }
            };
            if ok {
                let bad = c2.text(b);
                let alone_ok = load(&AutosarModel::new(), &bad, "x.arxml").is_ok();
                if alone_ok {
                    let mut first: Vec<usize> = (0..case.nfiles).filter(|f| *f != b).collect();
                    shuffle(&mut first, rng);
                    // texts of the other files: X removed from b does not change them
                    let vname = if variant == 0 { "same-elements" } else { "subpackage" };
                    conflict_case(k, rep, &c2, &first, b, Some(case), &format!("path of {} {} defined with another kind ({vname}) in {}", x.name, name, Case::fname(b)), None, &format!("conflict1 {vname} master {mi} h={:x}", hash_texts(&[bad.clone()])), &name);
                    // reverse: the bad file first, then a file that contains X
                    let a = (0..case.nfiles).find(|f| *f != b && x.files & (1 << f) != 0).unwrap();
                    let m = AutosarModel::new();
                    if load(&m, &bad, "bad.arxml").is_ok() {
                        let before = state_dump(&m);
                        let r = catch_unwind(AssertUnwindSafe(|| m.load_buffer(texts[a].as_bytes(), Case::fname(a), true).map(|_| ()).map_err(|e| format!("{e:?}"))));
                        let ans = match &r { Ok(Ok(())) => "accepted".to_string(), Ok(Err(e)) => format!("err {}", e.split([' ', '{', '(']).next().unwrap_or("")), Err(_) => "panic".into() };
                        k.put(&format!("conflict1r {vname} master {mi} h={:x}", hash_texts(&[bad.clone(), texts[a].clone()])), &ans, true);
                        k.stat(&format!("conflict1r_{vname}_{}", ans.split(' ').next().unwrap_or("")));
                        let docs = vec![("bad.arxml".to_string(), bad.clone()), (format!("{}   <- must be rejected", Case::fname(a)), texts[a].clone())];
                        match r {
                            Ok(Ok(())) => { let file = rep.write_docs("same path with two kinds: second file accepted", &docs, ""); k.fail(format!("[C09] conflicting file accepted: path of {} {} has two kinds replay={file}", x.name, name)) }
                            Ok(Err(_)) => {
                                let after = state_dump(&m);
                                if after != before { let file = rep.write_docs("rejected load changed the model", &docs, &diff_at(&before, &after)); k.fail(format!("[C11] rejected load_buffer is not atomic: {} replay={file}", short(&diff_at(&before, &after)))) }
                            }
                            Err(_) => { let file = rep.write_docs("panic", &docs, ""); k.fail(format!("[C12] panic in load_buffer of a conflicting file replay={file}")) }
                        }
                    }
                } else {
                    k.stat("conflict1_skipped_invalid");
                }
            }
        }
    }
    // (ii) identifiable child in only one file below a non-splittable parent that both files contain
    let vmask: u32 = case.versions.iter().fold(0u32, |a, v| a | *v as u32);
    let mut cands = vec![];
    find_nodes(&case.root, &mut vec![], &|_, c| c.ety.splittable() & vmask == 0 && c.ety.content_mode() == ContentMode::Bag && !c.ety.is_ordered() && c.files.count_ones() >= 2 && c.els().any(|x| x.ident.is_some()), &mut cands);
    if !cands.is_empty() {
        let lp = cands[rng.below(cands.len())].clone();
        let l = case.root.at(&lp).clone();
        let fs: Vec<usize> = (0..case.nfiles).filter(|f| l.files & (1 << f) != 0).collect();
        let b = fs[rng.below(fs.len())];
        let proto = l.els().find(|x| x.ident.is_some()).unwrap().clone();
        let variant = match rng.below(20) { 0..=16 => "model-extra-front", 17 => "model-extra-end", _ => "new-extra" };
        let (xfiles, ord) = match variant { "model-extra-front" => (l.files & !(1u8 << b), 0u32), "model-extra-end" => (l.files & !(1u8 << b), u32::MAX), _ => (1u8 << b, [0u32, u32::MAX][rng.below(2)]) };
        let mut c2 = case.clone();
        let lm = c2.root.at_mut(&lp);
        if let Some(n) = mk_named(lm, proto.name, "Zextra", xfiles, ord) {
            // position in the item list as well (files without permutation sort by position)
            if ord == 0 {
                let first_el = lm.items.iter().position(|i| matches!(i, Item::El(_))).unwrap_or(0);
                lm.items.insert(first_el, Item::El(n));
            } else {
                lm.items.push(Item::El(n));
            }
            let texts2: Vec<String> = (0..case.nfiles).map(|f| c2.text(f)).collect();
            if (0..case.nfiles).all(|f| load(&AutosarModel::new(), &texts2[f], "x.arxml").is_ok()) {
                let mut first: Vec<usize> = (0..case.nfiles).filter(|f| *f != b).collect();
                shuffle(&mut first, rng);
                let sig = if variant == "model-extra-front" { None } else { Some(SIG_PARTIAL) };
                let what = format!("{} Zextra below the non-splittable {} is in {} but {} ({variant})", proto.name, l.name, files_str(xfiles), if xfiles & (1 << b) != 0 { format!("not in the other files {}", files_str(l.files & !xfiles)) } else { format!("not in {}", Case::fname(b)) });
                // the "correct" continuation does not exist here (every variant of b conflicts), so none is loaded
                conflict_case(k, rep, &c2, &first, b, None, &what, sig, &format!("conflict2 {variant} master {mi} h={:x}", hash_texts(&texts2)), "Zextra");
            } else {
                k.stat("conflict2_skipped_invalid");
            }
        }
    }
}

// ------------------------------------------------------------------------------------------------
// driver
// ------------------------------------------------------------------------------------------------

/// hand-written partial views that every run loads in every order (C09): the merged model must hold exactly the elements of
/// the files, whatever the order, and every load must succeed
fn fixed_cases(k: &mut Sink, rep: &mut Rep) {
    let header = |xsd: &str| format!("<?xml version=\"1.0\" encoding=\"utf-8\"?>\n<AUTOSAR xsi:schemaLocation=\"http://autosar.org/schema/r4.0 {xsd}\" xmlns=\"http://autosar.org/schema/r4.0\" xmlns:xsi=\"http://www.w3.org/2001/XMLSchema-instance\">");
    let sys = |mapping: &str| format!("{}\n<AR-PACKAGES><AR-PACKAGE><SHORT-NAME>Sys</SHORT-NAME><ELEMENTS>\n  <SYSTEM><SHORT-NAME>System</SHORT-NAME>\n    <MAPPINGS><SYSTEM-MAPPING><SHORT-NAME>Map</SHORT-NAME>\n      <SW-MAPPINGS>\n        <SWC-TO-ECU-MAPPING><SHORT-NAME>{mapping}</SHORT-NAME></SWC-TO-ECU-MAPPING>\n      </SW-MAPPINGS>\n    </SYSTEM-MAPPING></MAPPINGS>\n  </SYSTEM>\n</ELEMENTS></AR-PACKAGE></AR-PACKAGES></AUTOSAR>", header("AUTOSAR_00051.xsd"));
    let legacy = format!("{}\n<AR-PACKAGES><AR-PACKAGE><SHORT-NAME>Legacy</SHORT-NAME><ELEMENTS>\n  <ECU-INSTANCE><SHORT-NAME>OldEcu</SHORT-NAME></ECU-INSTANCE>\n</ELEMENTS></AR-PACKAGE></AR-PACKAGES></AUTOSAR>", header("AUTOSAR_00050.xsd"));
    // SW-MAPPINGS is splittable from AUTOSAR_00051 on: two 00051 views that differ below it, and an unrelated file of an older
    // version in the same model (the split point must be judged by the versions of the files that hold it)
    let cases: Vec<(&str, Vec<(String, String)>)> = vec![(
        "split point whose splittable mask depends on the version, next to an unrelated older file",
        vec![("sys_a.arxml".to_string(), sys("MapA")), ("sys_b.arxml".to_string(), sys("MapB")), ("legacy.arxml".to_string(), legacy)],
    )];
    for (title, docs) in cases {
        k.stat("fixed_cases");
        let mut expected: BTreeSet<String> = BTreeSet::new();
        let mut alone_ok = true;
        for (name, text) in &docs {
            let m = AutosarModel::new();
            match m.load_buffer(text.as_bytes(), name, true) {
                Ok(_) => { for (_, e) in m.elements_dfs() { expected.insert(e.xml_path()); } }
                Err(_) => alone_ok = false,
            }
        }
        if !alone_ok { k.stat("fixed_case_not_loadable_alone"); continue }
        let mut texts_seen: BTreeSet<String> = BTreeSet::new();
        for order in permutations(docs.len()) {
            k.stat("fixed_case_load_orders");
            let ordered: Vec<(String, String)> = order.iter().map(|i| docs[*i].clone()).collect();
            let m = AutosarModel::new();
            let mut failed: Option<String> = None;
            for (name, text) in &ordered {
                let r = catch_unwind(AssertUnwindSafe(|| m.load_buffer(text.as_bytes(), name, true).map(|_| ()).map_err(|e| e.to_string())));
                match r {
                    Ok(Ok(())) => {}
                    Ok(Err(e)) => { failed = Some(format!("loading {name} fails: {e}")); break }
                    Err(_) => { failed = Some(format!("loading {name} panics")); break }
                }
            }
            if failed.is_none() {
                let got: BTreeSet<String> = m.elements_dfs().map(|(_, e)| e.xml_path()).collect();
                if got != expected {
                    failed = Some(format!("the merged model is not the union of the files: {} elements, expected {}", got.len(), expected.len()));
                } else {
                    m.sort();
                    let mut t = String::new();
                    let mut fs: Vec<ArxmlFile> = m.files().collect();
                    fs.sort_by_key(|f| f.filename());
                    for f in fs { t.push_str(&f.serialize().unwrap_or_default()); }
                    texts_seen.insert(t);
                }
            }
            if let Some(msg) = failed {
                let file = rep.write_docs(&format!("[fixed-case] {title}: {msg}"), &ordered, "");
                k.fail(format!("[C09] fixed-case: {title}: in the order {:?} {msg} replay={file}", ordered.iter().map(|d| d.0.as_str()).collect::<Vec<_>>()));
                break;
            }
        }
        if texts_seen.len() > 1 {
            let file = rep.write_docs(&format!("[fixed-case] {title}: the sorted texts of the files depend on the load order"), &docs, "");
            k.fail(format!("[C09] fixed-case: {title}: the merged content depends on the load order replay={file}"));
        }
    }
}

pub fn run(out: &str, seed: u64, thorough: bool, _side: &str) {
    let prev = std::panic::take_hook();
    std::panic::set_hook(Box::new(|_| {}));
    let mut rng = Rng::new(seed);
    let mut k = Sink::new(out);
    let mut rep = Rep { out: out.to_string(), nfail: 0, shrink_budget_cases: if thorough { 60 } else { 30 } };
    let masters = if thorough { 3000 } else { 300 };
    let start = std::time::Instant::now();
    let limit = std::time::Duration::from_secs(if thorough { 780 } else { 50 });
    let mut kinds_seen: BTreeMap<&'static str, u64> = BTreeMap::new();
    let mut gen_rejects = 0usize;
    let mut mi = 0usize;
    fixed_cases(&mut k, &mut rep);
    while mi < masters {
        if start.elapsed() > limit { k.stat("stopped_by_time_limit"); break }
        mi += 1;
        let mode = match rng.below(100) { 0..=2 => Mode::CrossKind, 3..=4 => Mode::Unkeyed, 5..=6 => Mode::Ordered, _ => Mode::Normal };
        let mver = match rng.below(20) {
            0..=9 => AutosarVersion::LATEST,
            10..=12 => AutosarVersion::Autosar_00051,
            13..=14 => AutosarVersion::Autosar_00048,
            15..=16 => AutosarVersion::Autosar_4_3_0,
            17..=18 => AutosarVersion::Autosar_4_2_2,
            _ => AutosarVersion::Autosar_4_0_3,
        };
        let mut kinds = vec![];
        // the rare modes need a kind with an ordered / unkeyed splittable list, splittable in the versions used
        let bias = match mode { Mode::Ordered => Some(11), Mode::Unkeyed => Some([4, 14][rng.below(2)]), _ => None };
        let mver = if bias.is_some() { AutosarVersion::LATEST } else { mver };
        let Some((mut root, compatible)) = gen_master(&mut rng, mver, &mut kinds, bias) else { k.stat("gen_master_failed"); continue };
        for kd in kinds { *kinds_seen.entry(kd).or_insert(0) += 1 }
        let nfiles = match rng.below(20) { 0..=8 => 2, 9..=15 => 3, _ => 4 };
        let mixed = rng.chance(2, 5) && compatible.len() > 1 && bias.is_none();
        // mixed versions: mostly close to the master version (more split points stay valid), sometimes anything compatible
        let near: Vec<AutosarVersion> = compatible.iter().copied().filter(|v| (*v as u32) >= AutosarVersion::Autosar_00049 as u32).collect();
        let versions: Vec<AutosarVersion> = (0..nfiles).map(|_| {
            if !mixed { mver } else if !near.is_empty() && rng.chance(2, 3) { near[rng.below(near.len())] } else { compatible[rng.below(compatible.len())] }
        }).collect();
        let ctx = SplitCtx { versions: versions.iter().map(|v| *v as u32).collect(), mode, permute: rng.chance(3, 4), p_shared: [30, 50, 60, 80][rng.below(4)] };
        assign(&mut root, (1u8 << nfiles) - 1, &ctx, &mut rng);
        let case = Case { root, nfiles, versions: versions.clone(), mode };
        let prep = match prepare(&case, true) {
            Ok(p) => p,
            Err(e) => {
                // a projection the library does not load on its own: not a C09 matter; keep the evidence
                if gen_rejects < 3 { let _ = std::fs::write(format!("{out}/gen_reject_{gen_rejects}.txt"), &e); }
                gen_rejects += 1;
                k.stat("gen_projection_rejected");
                continue;
            }
        };
        // distribution
        k.stat("masters");
        k.stat(&format!("mode_{mode:?}"));
        k.stat(&format!("files_{nfiles}"));
        if mixed && versions.iter().any(|v| *v != versions[0]) { k.stat("mixed_versions") }
        if ctx.permute { k.stat("permuted_sibling_order") }
        let total = case.root.count();
        let mut np = vec![];
        node_paths(&case.root, case.all(), "", &mut np);
        let excl = np.iter().filter(|(_, f)| f.count_ones() == 1).count();
        let part = np.iter().filter(|(_, f)| *f != case.all() && f.count_ones() > 1).count();
        *k.stats.entry("nodes_total".into()).or_insert(0) += total as u64;
        *k.stats.entry("identifiable_total".into()).or_insert(0) += np.len() as u64;
        *k.stats.entry("identifiable_exclusive_to_one_file".into()).or_insert(0) += excl as u64;
        *k.stats.entry("identifiable_in_some_files".into()).or_insert(0) += part as u64;
        *k.stats.entry("identifiable_in_all_files".into()).or_insert(0) += (np.len() - excl - part) as u64;
        let nontrivial = excl + part > 0;
        {
            // packages shared / exclusive, BSW values (keyed by DEFINITION-REF) that are not in all files of their list
            fn walk(n: &Node, all: u8, st: &mut [u64; 5]) {
                for c in n.els() {
                    if c.name == ElementName::ArPackage {
                        if c.files == all { st[0] += 1 } else if c.files.count_ones() == 1 { st[1] += 1 } else { st[2] += 1 }
                    }
                    if c.ident.is_none() && c.els().any(|d| d.name == ElementName::DefinitionRef) {
                        st[3] += 1;
                        if c.files != n.files { st[4] += 1 }
                    }
                    walk(c, all, st);
                }
            }
            let mut st = [0u64; 5];
            walk(&case.root, case.all(), &mut st);
            for (key, v) in ["packages_in_all_files", "packages_exclusive", "packages_in_some_files", "bsw_values_keyed_by_defref", "bsw_values_split_from_their_list"].iter().zip(st) {
                *k.stats.entry(key.to_string()).or_insert(0) += v;
            }
        }
        if !nontrivial { k.stat("masters_without_any_split") }

        // all load orders
        let orders = permutations(nfiles);
        let mut dumps: BTreeSet<String> = BTreeSet::new();
        let mut first_fail: Option<(Vec<usize>, Vec<Fail>)> = None;
        let mut nfailed = 0;
        for (oi, o) in orders.iter().enumerate() {
            k.stat("load_orders");
            // the same loads through the world protocol (the Lean model of parser + merge answers them too); quick tier: the
            // first four orders of a master
            if thorough || oi < 4 {
                k.stat("load_orders_sent_to_the_model");
                let docs: Vec<(String, String)> = o.iter().map(|f| (Case::fname(*f), prep.texts[*f].clone())).collect();
                for (r, a) in crate::world::merge_lines(&docs) {
                    k.put(&r, &a, false);
                }
            }
            let r = catch_unwind(AssertUnwindSafe(|| check_union(&case, &prep.texts, o, &prep.alone, &prep.sorted_master)));
            let (fails, d) = r.unwrap_or_else(|_| (vec![Fail { class: "panic", msg: "panic".into() }], String::new()));
            dumps.insert(d);
            if !fails.is_empty() {
                nfailed += 1;
                if first_fail.is_none() { first_fail = Some((o.clone(), fails)) }
            }
        }
        let mut classes = String::new();
        if let Some((o, fails)) = &first_fail {
            let sig = mode_sig(&case, &prep.texts, o, fails);
            classes = fails.iter().map(|f| f.class).collect::<BTreeSet<_>>().into_iter().collect::<Vec<_>>().join(",");
            report(&mut k, &mut rep, &case, o, Oracle::Union, fails, sig);
            k.stat("masters_with_failure");
        } else if dumps.len() > 1 {
            // cannot happen when every order equals the master; kept as an independent statement of the property
            let file = rep.write_case("merged model depends on the load order", &case, &orders[0], "");
            k.fail(format!("[C09] order: the merged model depends on the load order ({} different results) replay={file}", dumps.len()));
        }
        let req = format!("master {mi} mode={mode:?} files={nfiles} versions={} nodes={total} ident={} excl={excl} part={part} h={:x}", versions.iter().map(|v| v.filename().trim_start_matches("AUTOSAR_").trim_end_matches(".xsd").to_string()).collect::<Vec<_>>().join("/"), np.len(), hash_texts(&prep.texts));
        let ans = if first_fail.is_none() { format!("ok orders={}", orders.len()) } else { format!("FAIL orders={} failed={} classes={}", orders.len(), nfailed, classes) };
        k.put(&req, &ans, nontrivial);

        if mode == Mode::Normal && first_fail.is_none() {
            // C10 on the merged model: one random order, every file
            let o = orders[rng.below(orders.len())].clone();
            for f in 0..nfiles {
                k.stat("rmfile_cases");
                let r = catch_unwind(AssertUnwindSafe(|| check_rmfile(&case, &prep.texts, &o, f, &prep.alone)));
                let fails = r.unwrap_or_else(|_| vec![Fail { class: "panic", msg: "panic".into() }]);
                k.put(&format!("rmfile master {mi} order={:?} file=f{f}", o), if fails.is_empty() { "ok" } else { "FAIL" }, nontrivial);
                if !fails.is_empty() {
                    report(&mut k, &mut rep, &case, &o, Oracle::Rm(f), &fails, None);
                    break;
                }
            }
            // conflicting files
            if rng.chance(2, 3) { conflicts(&mut k, &mut rep, &mut rng, &case, &prep.texts, mi) }
        }
    }
    for (kd, n) in kinds_seen { k.stats.insert(format!("kind_{kd}"), n); }
    k.stats.insert("elapsed_ms".into(), start.elapsed().as_millis() as u64);
    std::panic::set_hook(prev);
    k.finish(out, "");
}
