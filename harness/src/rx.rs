//! A small regex engine (parser + Brzozowski derivatives) used ONLY to generate conformance tests for
//! the C19 scenario (members, transition cover, distinguishing suffixes).  It takes no part in any verdict:
//! verdicts come from comparing the Rust validators with the Lean model's answers.
use std::collections::HashMap;
use std::rc::Rc;

#[derive(Clone, PartialEq, Eq, Hash, Debug)]
pub enum Re {
    Empty,
    Eps,
    Cls(Vec<(u8, u8)>, bool),
    Cat(Rc<Re>, Rc<Re>),
    Alt(Rc<Re>, Rc<Re>),
    Star(Rc<Re>),
}
use Re::*;

fn in_cls(rs: &[(u8, u8)], neg: bool, b: u8) -> bool {
    rs.iter().any(|(lo, hi)| *lo <= b && b <= *hi) != neg
}
pub fn nullable(r: &Re) -> bool {
    match r {
        Empty => false,
        Eps => true,
        Cls(..) => false,
        Cat(a, b) => nullable(a) && nullable(b),
        Alt(a, b) => nullable(a) || nullable(b),
        Star(_) => true,
    }
}
fn mk_cat(a: Re, b: Re) -> Re {
    match (a, b) {
        (Empty, _) | (_, Empty) => Empty,
        (Eps, b) => b,
        (a, Eps) => a,
        (Cat(a1, a2), b) => Cat(a1, Rc::new(mk_cat((*a2).clone(), b))),
        (a, b) => Cat(Rc::new(a), Rc::new(b)),
    }
}
fn mk_alt(a: Re, b: Re) -> Re {
    match (a, b) {
        (Empty, b) => b,
        (a, Empty) => a,
        (a, b) => {
            if a == b {
                a
            } else {
                // flatten and dedupe to keep the state space finite
                let mut parts = vec![];
                fn collect(r: Re, out: &mut Vec<Re>) {
                    match r {
                        Alt(x, y) => {
                            collect((*x).clone(), out);
                            collect((*y).clone(), out);
                        }
                        o => {
                            if !out.contains(&o) {
                                out.push(o)
                            }
                        }
                    }
                }
                collect(a, &mut parts);
                collect(b, &mut parts);
                let mut it = parts.into_iter().rev();
                let mut acc = it.next().unwrap();
                for p in it {
                    acc = Alt(Rc::new(p), Rc::new(acc));
                }
                acc
            }
        }
    }
}
pub fn deriv(b: u8, r: &Re) -> Re {
    match r {
        Empty | Eps => Empty,
        Cls(rs, neg) => if in_cls(rs, *neg, b) { Eps } else { Empty },
        Cat(x, y) => {
            let left = mk_cat(deriv(b, x), (**y).clone());
            if nullable(x) { mk_alt(left, deriv(b, y)) } else { left }
        }
        Alt(x, y) => mk_alt(deriv(b, x), deriv(b, y)),
        Star(x) => mk_cat(deriv(b, x), r.clone()),
    }
}
pub fn matches(r: &Re, s: &[u8]) -> bool {
    let mut cur = r.clone();
    for b in s {
        cur = deriv(*b, &cur);
        if cur == Empty {
            return false;
        }
    }
    nullable(&cur)
}

// ---- parser (same dialect as lean/AutosarVerif/Model/Regex.lean) ----
struct P<'a> {
    s: &'a [u8],
    i: usize,
}
fn repeat(r: Re, m: usize, n: usize) -> Re {
    // r^m followed by (r (r (...)?)?)? with n-m nested optional copies
    let mut acc = Eps;
    for _ in 0..(n.saturating_sub(m)) {
        acc = Alt(Rc::new(Eps), Rc::new(mk_cat(r.clone(), acc)));
    }
    for _ in 0..m {
        acc = mk_cat(r.clone(), acc);
    }
    acc
}
impl<'a> P<'a> {
    fn peek(&self) -> Option<u8> { self.s.get(self.i).copied() }
    fn alt(&mut self) -> Option<Re> {
        let mut r = self.cat()?;
        while self.peek() == Some(b'|') {
            self.i += 1;
            let r2 = self.cat()?;
            r = Alt(Rc::new(r), Rc::new(r2));
        }
        Some(r)
    }
    fn cat(&mut self) -> Option<Re> {
        let mut acc = Eps;
        while let Some(c) = self.peek() {
            if c == b'|' || c == b')' { break; }
            let mut a = self.atom()?;
            loop {
                match self.peek() {
                    Some(b'*') => { self.i += 1; a = Star(Rc::new(a)); }
                    Some(b'+') => { self.i += 1; a = Cat(Rc::new(a.clone()), Rc::new(Star(Rc::new(a)))); }
                    Some(b'?') => { self.i += 1; a = Alt(Rc::new(Eps), Rc::new(a)); }
                    Some(b'{') => {
                        self.i += 1;
                        let m = self.num();
                        let n = if self.peek() == Some(b',') { self.i += 1; self.num() } else { m };
                        if self.peek() != Some(b'}') { return None; }
                        self.i += 1;
                        a = repeat(a, m, n);
                    }
                    _ => break,
                }
            }
            acc = if acc == Eps { a } else { Cat(Rc::new(acc), Rc::new(a)) };
        }
        Some(acc)
    }
    fn num(&mut self) -> usize {
        let mut n = 0;
        while let Some(c) = self.peek() {
            if c.is_ascii_digit() { n = n * 10 + (c - b'0') as usize; self.i += 1; } else { break; }
        }
        n
    }
    fn esc(c: u8) -> Vec<(u8, u8)> { if c == b'd' { vec![(b'0', b'9')] } else { vec![(c, c)] } }
    fn atom(&mut self) -> Option<Re> {
        let c = self.peek()?;
        self.i += 1;
        match c {
            b'(' => {
                let r = self.alt()?;
                if self.peek() != Some(b')') { return None; }
                self.i += 1;
                Some(r)
            }
            b'[' => {
                let neg = if self.peek() == Some(b'^') { self.i += 1; true } else { false };
                let mut rs = vec![];
                loop {
                    let c = self.peek()?;
                    self.i += 1;
                    if c == b']' { break; }
                    let (lo, is_d) = if c == b'\\' { let e = self.peek()?; self.i += 1; (e, e == b'd') } else { (c, false) };
                    if !is_d && self.peek() == Some(b'-') && self.s.get(self.i + 1).is_some_and(|x| *x != b']') {
                        self.i += 1;
                        let mut hi = self.peek()?;
                        self.i += 1;
                        if hi == b'\\' { hi = self.peek()?; self.i += 1; }
                        rs.push((lo, hi));
                    } else if is_d {
                        rs.push((b'0', b'9'));
                    } else {
                        rs.push((lo, lo));
                    }
                }
                Some(Cls(rs, neg))
            }
            b'\\' => { let e = self.peek()?; self.i += 1; Some(Cls(Self::esc(e), false)) }
            b'.' => Some(Cls(vec![(10, 10)], true)),
            b'*' | b'+' | b'?' | b'{' | b']' | b'}' => None,
            c => Some(Cls(vec![(c, c)], false)),
        }
    }
}
pub fn parse(s: &str) -> Option<Re> {
    let mut p = P { s: s.as_bytes(), i: 0 };
    let r = p.alt()?;
    if p.i == s.len() { Some(r) } else { None }
}

/// representative bytes: every class boundary of the regex and its neighbours, plus a few foreign bytes
pub fn alphabet(r: &Re) -> Vec<u8> {
    fn go(r: &Re, out: &mut Vec<u8>) {
        match r {
            Cls(rs, _) => for (lo, hi) in rs {
                out.extend([*lo, *hi, lo.wrapping_sub(1), hi.wrapping_add(1)]);
                if hi > lo { out.push(lo + (hi - lo) / 2) }
            },
            Cat(a, b) | Alt(a, b) => { go(a, out); go(b, out) }
            Star(a) => go(a, out),
            _ => {}
        }
    }
    let mut v = vec![b' ', b'\n', 0, 0x7f, 0x80, 0xff, b'a', b'Z', b'0', b'_', b'-', b'.', b':', b'/'];
    go(r, &mut v);
    v.sort();
    v.dedup();
    v
}

pub struct Automaton {
    pub states: Vec<Re>,
    pub access: Vec<Vec<u8>>,
    pub trans: Vec<Vec<usize>>, // [state][alphabet index] -> state (usize::MAX = dead)
    pub accept_suffix: Vec<Option<Vec<u8>>>, // a shortest accepted continuation
    pub alpha: Vec<u8>,
}

/// derivative automaton over the representative alphabet (bounded)
pub fn automaton(r: &Re, max_states: usize) -> Automaton {
    let alpha = alphabet(r);
    let mut idx: HashMap<Re, usize> = HashMap::new();
    let mut states = vec![r.clone()];
    let mut access = vec![vec![]];
    let mut trans: Vec<Vec<usize>> = vec![];
    idx.insert(r.clone(), 0);
    let mut i = 0;
    while i < states.len() {
        let cur = states[i].clone();
        let mut row = vec![];
        for a in &alpha {
            let d = deriv(*a, &cur);
            if d == Empty {
                row.push(usize::MAX);
                continue;
            }
            let j = match idx.get(&d) {
                Some(j) => *j,
                None => {
                    if states.len() >= max_states {
                        row.push(usize::MAX - 1); // unexplored
                        continue;
                    }
                    let j = states.len();
                    idx.insert(d.clone(), j);
                    states.push(d);
                    let mut acc = access[i].clone();
                    acc.push(*a);
                    access.push(acc);
                    j
                }
            };
            row.push(j);
        }
        trans.push(row);
        i += 1;
    }
    // shortest accepted continuation per state (backward BFS by fixpoint)
    let n = states.len();
    let mut suf: Vec<Option<Vec<u8>>> = states.iter().map(|s| if nullable(s) { Some(vec![]) } else { None }).collect();
    let mut changed = true;
    while changed {
        changed = false;
        for q in 0..n {
            for (ai, a) in alpha.iter().enumerate() {
                let t = trans[q][ai];
                if t < n {
                    if let Some(st) = suf[t].clone() {
                        let cand_len = st.len() + 1;
                        if suf[q].as_ref().map_or(true, |x| x.len() > cand_len) {
                            let mut v = vec![*a];
                            v.extend(st);
                            suf[q] = Some(v);
                            changed = true;
                        }
                    }
                }
            }
        }
    }
    Automaton { states, access, trans, accept_suffix: suf, alpha }
}
