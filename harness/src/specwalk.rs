//! Enumerates the element types of the specification through the public API only
//! (breadth-first from `ElementType::ROOT` over `sub_element_spec_iter`).
use autosar_data_specification::*;
use std::collections::{HashMap, VecDeque};

/// (def, typ) of an `ElementType`, read from its `Debug` output `ElementType(def, typ)`
pub fn ety_ids(e: &ElementType) -> (usize, usize) {
    let s = format!("{e:?}");
    let inner = s.trim_start_matches("ElementType(").trim_end_matches(')');
    let mut it = inner.split(", ");
    (it.next().unwrap().parse().unwrap(), it.next().unwrap().parse().unwrap())
}

pub struct TypeInfo {
    pub ety: ElementType,
    pub name: ElementName,
    pub def: usize,
    pub typ: usize,
}

/// all element types reachable from the root, in BFS order, keyed by definition id
pub fn all_types() -> Vec<TypeInfo> {
    let mut seen: HashMap<usize, ()> = HashMap::new();
    let mut out = vec![];
    let mut q = VecDeque::new();
    let (d, t) = ety_ids(&ElementType::ROOT);
    seen.insert(d, ());
    q.push_back(TypeInfo { ety: ElementType::ROOT, name: ElementName::Autosar, def: d, typ: t });
    while let Some(ti) = q.pop_front() {
        for (name, sub, _mask, _named) in ti.ety.sub_element_spec_iter() {
            let (d, t) = ety_ids(&sub);
            if seen.insert(d, ()).is_none() {
                q.push_back(TypeInfo { ety: sub, name, def: d, typ: t });
            }
        }
        out.push(ti);
    }
    out
}

pub const ALL_VERSIONS: [AutosarVersion; 21] = [
    AutosarVersion::Autosar_4_0_1, AutosarVersion::Autosar_4_0_2, AutosarVersion::Autosar_4_0_3,
    AutosarVersion::Autosar_4_1_1, AutosarVersion::Autosar_4_1_2, AutosarVersion::Autosar_4_1_3,
    AutosarVersion::Autosar_4_2_1, AutosarVersion::Autosar_4_2_2, AutosarVersion::Autosar_4_3_0,
    AutosarVersion::Autosar_00042, AutosarVersion::Autosar_00043, AutosarVersion::Autosar_00044,
    AutosarVersion::Autosar_00045, AutosarVersion::Autosar_00046, AutosarVersion::Autosar_00047,
    AutosarVersion::Autosar_00048, AutosarVersion::Autosar_00049, AutosarVersion::Autosar_00050,
    AutosarVersion::Autosar_00051, AutosarVersion::Autosar_00052, AutosarVersion::Autosar_00053,
];

pub fn mode_str(m: ContentMode) -> &'static str {
    match m {
        ContentMode::Sequence => "Sequence",
        ContentMode::Choice => "Choice",
        ContentMode::Bag => "Bag",
        ContentMode::Characters => "Characters",
        ContentMode::Mixed => "Mixed",
    }
}
pub fn mult_str(m: ElementMultiplicity) -> &'static str {
    match m {
        ElementMultiplicity::ZeroOrOne => "ZeroOrOne",
        ElementMultiplicity::One => "One",
        ElementMultiplicity::Any => "Any",
    }
}

/// `validate_regex_k` is identified by its published regex text (side table written by the translator)
pub struct Side {
    pub regex_to_k: HashMap<String, usize>,
    /// item counts of the three name enums (length of the identifier lists the translator read)
    pub n_elem: usize,
    pub n_attr: usize,
    pub n_enum: usize,
}
fn count_list(text: &str, key: &str) -> usize {
    let start = text.find(&format!("\"{key}\": [")).expect("ident list in side.json") + key.len() + 5;
    let end = start + text[start..].find(']').unwrap();
    text[start..end].matches('"').count() / 2
}
impl Side {
    pub fn load(path: &str) -> Side {
        // minimal extraction of  "regexes": {"1": "...", ...}  from side.json (written by gen.py with json.dump)
        let text = std::fs::read_to_string(path).expect("side.json (run the translator first)");
        let start = text.find("\"regexes\": {").expect("regexes in side.json") + "\"regexes\": {".len();
        let mut regex_to_k = HashMap::new();
        let b = text.as_bytes();
        let mut i = start;
        loop {
            while i < b.len() && (b[i] == b' ' || b[i] == b',') {
                i += 1;
            }
            if i >= b.len() || b[i] == b'}' {
                break;
            }
            let (k, ni) = json_string_at(&text, i);
            i = ni;
            while b[i] == b':' || b[i] == b' ' {
                i += 1;
            }
            let (v, ni) = json_string_at(&text, i);
            i = ni;
            regex_to_k.insert(v, k.parse().unwrap());
        }
        Side { regex_to_k, n_elem: count_list(&text, "elem_idents"), n_attr: count_list(&text, "attr_idents"), n_enum: count_list(&text, "enum_idents") }
    }
}
fn json_string_at(text: &str, mut i: usize) -> (String, usize) {
    let b = text.as_bytes();
    assert_eq!(b[i], b'"');
    i += 1;
    let mut out = String::new();
    let chars: Vec<char> = text[i..].chars().collect();
    let mut j = 0;
    let mut consumed = 0;
    while chars[j] != '"' {
        if chars[j] == '\\' {
            let e = chars[j + 1];
            match e {
                'n' => out.push('\n'),
                't' => out.push('\t'),
                'r' => out.push('\r'),
                'u' => {
                    let h: String = chars[j + 2..j + 6].iter().collect();
                    out.push(char::from_u32(u32::from_str_radix(&h, 16).unwrap()).unwrap());
                    consumed += 4 ;
                    j += 4;
                }
                c => out.push(c),
            }
            consumed += chars[j].len_utf8() + e.len_utf8();
            j += 2;
        } else {
            out.push(chars[j]);
            consumed += chars[j].len_utf8();
            j += 1;
        }
    }
    (out, i + consumed + 1)
}

/// canonical text of a `CharacterDataSpec` (same format as `cspecStr` in the driver)
pub fn cspec_str(spec: &CharacterDataSpec, side: &Side) -> String {
    match spec {
        CharacterDataSpec::Enum { items } => {
            let mut a: u64 = 0;
            for (it, mask) in items.iter() {
                a = (a * 31 + crate::util::id16(*it) as u64 * 7 + *mask as u64) % 1000000007;
            }
            format!("enum:{}:{}", items.len(), a)
        }
        CharacterDataSpec::Pattern { regex, max_length, .. } => {
            let k = side.regex_to_k.get(*regex).map(|k| k.to_string()).unwrap_or_else(|| format!("?{regex}"));
            format!("pattern:{}:{}", k, opt_str(max_length))
        }
        CharacterDataSpec::String { preserve_whitespace, max_length } => {
            format!("string:{}:{}", preserve_whitespace, opt_str(max_length))
        }
        CharacterDataSpec::UnsignedInteger => "uint".to_string(),
        CharacterDataSpec::Float => "float".to_string(),
    }
}
fn opt_str(o: &Option<usize>) -> String {
    match o {
        Some(n) => format!("(some {n})"),
        None => "none".to_string(),
    }
}
