//! Scenario `docs`: properties C01 (a loaded model is faithful to the document; load/serialize is a fixpoint) and
//! C08 (strict and lenient loading agree; documented constraint violations are never accepted by strict loading).
//!
//! Generators: (1) specification walk through the editing API per version, serialized by the library, and random
//! slices of that document; (2) grammar-directed small documents written as TEXT by the writer in this file
//! (entities, numeric references, comments, both quote styles, white space, BOM); (3) defect injection into
//! documents of (1) and (2).  Oracles: C01-fixpoint, C01-faithful (independent XML reader `read_doc`),
//! C08-agreement, C08-no-holes.  Request line: `doc <kind> v=<version> h=<hash> len=<n> [defects=..]`,
//! answer: `strict=<ok|err ..> lenient=<ok(n)|err ..>`.
use crate::util::*;
use autosar_data::*;
use autosar_data_specification::{CharacterDataSpec, ContentMode, ElementMultiplicity, ElementType};
use std::collections::{HashMap, HashSet};
use std::panic::{catch_unwind, AssertUnwindSafe};
use std::rc::Rc;
use std::str::FromStr;
use std::time::Instant;

// ------------------------------------------------------------------------------------------------------------
// plain XML tree (raw, undecoded texts), writer and independent reader
// ------------------------------------------------------------------------------------------------------------

#[derive(Clone, Debug)]
struct XAttr {
    sep: String,
    name: String,
    raw: String,
    quote: char,
}
#[derive(Clone, Debug)]
enum XItem {
    Elem(XNode),
    Text(String),
    Comment(String),
}
#[derive(Clone, Debug)]
struct XNode {
    name: String,
    attrs: Vec<XAttr>,
    tag_ws: String,
    items: Vec<XItem>,
    selfclose: bool,
}
#[derive(Clone, Debug)]
struct XDoc {
    bom: bool,
    prolog: String,
    pre: Vec<XItem>,
    root: XNode,
    post: Vec<XItem>,
}

impl XNode {
    fn new(name: &str) -> XNode {
        XNode { name: name.to_string(), attrs: vec![], tag_ws: String::new(), items: vec![], selfclose: true }
    }
    fn first_elem_is_short_name(&self) -> Option<usize> {
        for (i, it) in self.items.iter().enumerate() {
            if let XItem::Elem(n) = it {
                return if n.name == "SHORT-NAME" { Some(i) } else { None };
            }
        }
        None
    }
}

fn write_item(it: &XItem, o: &mut String) {
    match it {
        XItem::Elem(n) => write_node(n, o),
        XItem::Text(t) => o.push_str(t),
        XItem::Comment(c) => {
            o.push_str("<!--");
            o.push_str(c);
            o.push_str("-->");
        }
    }
}
fn write_node(n: &XNode, o: &mut String) {
    o.push('<');
    o.push_str(&n.name);
    for a in &n.attrs {
        o.push_str(&a.sep);
        o.push_str(&a.name);
        o.push('=');
        o.push(a.quote);
        o.push_str(&a.raw);
        o.push(a.quote);
    }
    o.push_str(&n.tag_ws);
    if n.items.is_empty() && n.selfclose {
        o.push_str("/>");
        return;
    }
    o.push('>');
    for it in &n.items {
        write_item(it, o);
    }
    o.push_str("</");
    o.push_str(&n.name);
    o.push('>');
}
fn write_doc(d: &XDoc) -> Vec<u8> {
    let mut o = String::new();
    o.push_str(&d.prolog);
    for it in &d.pre {
        write_item(it, &mut o);
    }
    write_node(&d.root, &mut o);
    for it in &d.post {
        write_item(it, &mut o);
    }
    let mut v = Vec::with_capacity(o.len() + 3);
    if d.bom {
        v.extend_from_slice(&[0xEF, 0xBB, 0xBF]);
    }
    v.extend_from_slice(o.as_bytes());
    v
}

fn is_ws(c: u8) -> bool {
    c == b' ' || c == b'\t' || c == b'\n' || c == b'\r' || c == 0x0C
}
fn all_ws(s: &str) -> bool {
    s.bytes().all(is_ws)
}
fn trim_ws(s: &str) -> &str {
    let b = s.as_bytes();
    let mut a = 0;
    let mut e = b.len();
    while a < e && is_ws(b[a]) {
        a += 1;
    }
    while e > a && is_ws(b[e - 1]) {
        e -= 1;
    }
    &s[a..e]
}

/// Independent minimal XML reader (not using the crate's lexer).
struct Rd<'a> {
    s: &'a str,
    p: usize,
}
impl<'a> Rd<'a> {
    fn rest(&self) -> &'a str {
        &self.s[self.p..]
    }
    fn until(&mut self, pat: &str, what: &str) -> Result<&'a str, String> {
        match self.rest().find(pat) {
            Some(i) => {
                let r = &self.s[self.p..self.p + i];
                self.p += i + pat.len();
                Ok(r)
            }
            None => Err(format!("reader: unterminated {what} at byte {}", self.p)),
        }
    }
    fn ws(&mut self) -> &'a str {
        let st = self.p;
        while self.p < self.s.len() && is_ws(self.s.as_bytes()[self.p]) {
            self.p += 1;
        }
        &self.s[st..self.p]
    }
    /// comments, processing instructions, character data up to the next element tag (start or end) or the end
    fn misc(&mut self, items: &mut Vec<XItem>) -> Result<(), String> {
        loop {
            let r = self.rest();
            if r.is_empty() {
                return Ok(());
            }
            if r.starts_with("<!--") {
                self.p += 4;
                let c = self.until("-->", "comment")?;
                items.push(XItem::Comment(c.to_string()));
            } else if r.starts_with("<?") {
                self.p += 2;
                self.until("?>", "processing instruction")?;
            } else if r.starts_with('<') {
                return Ok(());
            } else {
                let n = r.find('<').unwrap_or(r.len());
                items.push(XItem::Text(r[..n].to_string()));
                self.p += n;
            }
        }
    }
    fn element(&mut self, depth: usize) -> Result<XNode, String> {
        if depth > 2000 {
            return Err("reader: nesting too deep".into());
        }
        if !self.rest().starts_with('<') {
            return Err(format!("reader: element expected at byte {}", self.p));
        }
        self.p += 1;
        let st = self.p;
        while self.p < self.s.len() {
            let c = self.s.as_bytes()[self.p];
            if is_ws(c) || c == b'>' || c == b'/' {
                break;
            }
            self.p += 1;
        }
        let mut n = XNode::new(&self.s[st..self.p]);
        if n.name.is_empty() {
            return Err(format!("reader: empty element name at byte {}", st));
        }
        loop {
            let w = self.ws();
            let r = self.rest();
            if r.starts_with("/>") {
                self.p += 2;
                n.tag_ws = w.to_string();
                n.selfclose = true;
                return Ok(n);
            }
            if r.starts_with('>') {
                self.p += 1;
                n.tag_ws = w.to_string();
                n.selfclose = false;
                break;
            }
            if r.is_empty() {
                return Err("reader: unterminated start tag".into());
            }
            if w.is_empty() {
                return Err(format!("reader: white space expected before attribute at byte {}", self.p));
            }
            let eq = r.find('=').ok_or_else(|| format!("reader: '=' expected in attribute at byte {}", self.p))?;
            let name = &r[..eq];
            if name.is_empty() || name.bytes().any(|c| is_ws(c) || c == b'>' || c == b'<' || c == b'"' || c == b'\'') {
                return Err(format!("reader: bad attribute name at byte {}", self.p));
            }
            let q = r[eq + 1..].chars().next().unwrap_or(' ');
            if q != '"' && q != '\'' {
                return Err(format!("reader: quote expected at byte {}", self.p + eq + 1));
            }
            let vstart = eq + 2;
            let vlen = r[vstart..].find(q).ok_or_else(|| format!("reader: unterminated attribute value at byte {}", self.p))?;
            n.attrs.push(XAttr { sep: w.to_string(), name: name.to_string(), raw: r[vstart..vstart + vlen].to_string(), quote: q });
            self.p += vstart + vlen + 1;
        }
        loop {
            self.misc(&mut n.items)?;
            let r = self.rest();
            if r.is_empty() {
                return Err(format!("reader: end of input inside element {}", n.name));
            }
            if r.starts_with("</") {
                self.p += 2;
                let nm = self.until(">", "end tag")?;
                if trim_ws(nm) != n.name {
                    return Err(format!("reader: end tag {} does not match {}", nm, n.name));
                }
                return Ok(n);
            }
            let c = self.element(depth + 1)?;
            n.items.push(XItem::Elem(c));
        }
    }
}

fn read_doc(bytes: &[u8]) -> Result<XDoc, String> {
    let bom = bytes.starts_with(&[0xEF, 0xBB, 0xBF]);
    let body = if bom { &bytes[3..] } else { bytes };
    let s = std::str::from_utf8(body).map_err(|_| "reader: not utf-8".to_string())?;
    let mut rd = Rd { s, p: 0 };
    if !s.starts_with("<?xml") {
        return Err("reader: no xml declaration".into());
    }
    let e = s.find("?>").ok_or("reader: unterminated xml declaration")?;
    let prolog = s[..e + 2].to_string();
    rd.p = e + 2;
    let mut pre = vec![];
    rd.misc(&mut pre)?;
    let root = rd.element(0)?;
    let mut post = vec![];
    loop {
        rd.misc(&mut post)?;
        if rd.rest().is_empty() {
            break;
        }
        if rd.rest().starts_with("</") {
            return Err("reader: end tag after the root element".into());
        }
        let n = rd.element(0)?;
        post.push(XItem::Elem(n));
    }
    Ok(XDoc { bom, prolog, pre, root, post })
}

/// decode the five predefined entities and numeric character references; `None` for anything malformed
fn decode(raw: &str) -> Option<String> {
    if !raw.contains('&') {
        return Some(raw.to_string());
    }
    let mut o = String::with_capacity(raw.len());
    let mut r = raw;
    while let Some(i) = r.find('&') {
        o.push_str(&r[..i]);
        r = &r[i + 1..];
        let semi = r.find(';')?;
        let ent = &r[..semi];
        r = &r[semi + 1..];
        match ent {
            "lt" => o.push('<'),
            "gt" => o.push('>'),
            "amp" => o.push('&'),
            "apos" => o.push('\''),
            "quot" => o.push('"'),
            _ => {
                let v = if let Some(h) = ent.strip_prefix("#x") {
                    if h.is_empty() || !h.bytes().all(|c| c.is_ascii_hexdigit()) {
                        return None;
                    }
                    u32::from_str_radix(h, 16).ok()?
                } else if let Some(d) = ent.strip_prefix('#') {
                    if d.is_empty() || !d.bytes().all(|c| c.is_ascii_digit()) {
                        return None;
                    }
                    d.parse::<u32>().ok()?
                } else {
                    return None;
                };
                o.push(char::from_u32(v)?);
            }
        }
    }
    o.push_str(r);
    Some(o)
}

// ------------------------------------------------------------------------------------------------------------
// model dump and structural comparison
// ------------------------------------------------------------------------------------------------------------

#[derive(Clone, Debug, PartialEq)]
enum MVal {
    E(String),
    S(String),
    U(u64),
    F(u64),
}
fn fbits(f: f64) -> u64 {
    if f.is_nan() { 0x7ff8_0000_0000_0000 } else { f.to_bits() }
}
fn mval(c: &CharacterData) -> MVal {
    match c {
        CharacterData::Enum(e) => MVal::E(e.to_str().to_string()),
        CharacterData::String(s) => MVal::S(s.clone()),
        CharacterData::UnsignedInteger(u) => MVal::U(*u),
        CharacterData::Float(f) => MVal::F(fbits(*f)),
    }
}
fn mval_str(v: &MVal) -> String {
    match v {
        MVal::E(s) => format!("enum {s}"),
        MVal::S(s) => format!("string {s:?}"),
        MVal::U(u) => format!("uint {u}"),
        MVal::F(b) => format!("float {:?}", f64::from_bits(*b)),
    }
}
#[derive(Clone, Debug, PartialEq)]
enum MItem {
    Elem(MNode),
    Val(MVal),
}
#[derive(Clone, Debug, PartialEq)]
struct MNode {
    name: String,
    attrs: Vec<(String, MVal)>,
    items: Vec<MItem>,
    comment: Option<String>,
}
/// features of a loaded model that are known to break the load/serialize fixpoint
#[derive(Default, Clone, Copy)]
struct Features {
    split_chars: bool,
    split_mixed: bool,
    ws_edge: bool,
}
fn has_edge_ws(s: &str) -> bool {
    let b = s.as_bytes();
    !b.is_empty() && (is_ws(b[0]) || is_ws(b[b.len() - 1]))
}
fn dump(e: &Element, f: &mut Features) -> MNode {
    let ty = e.element_type();
    let mut n = MNode { name: e.element_name().to_str().to_string(), attrs: vec![], items: vec![], comment: e.comment() };
    for a in e.attributes() {
        if let CharacterData::String(s) = &a.content {
            let preserve = matches!(ty.find_attribute_spec(a.attrname).map(|x| x.spec), Some(CharacterDataSpec::String { preserve_whitespace: true, .. }));
            if !preserve && has_edge_ws(s) {
                f.ws_edge = true;
            }
        }
        n.attrs.push((a.attrname.to_str().to_string(), mval(&a.content)));
    }
    let preserve = matches!(ty.chardata_spec(), Some(CharacterDataSpec::String { preserve_whitespace: true, .. }));
    let mut prev_val = false;
    let mut nvals = 0;
    for c in e.content() {
        match c {
            ElementContent::Element(s) => {
                prev_val = false;
                n.items.push(MItem::Elem(dump(&s, f)));
            }
            ElementContent::CharacterData(cd) => {
                if let CharacterData::String(s) = &cd {
                    if !preserve && has_edge_ws(s) {
                        f.ws_edge = true;
                    }
                    if preserve && !s.is_empty() && all_ws(s) {
                        f.ws_edge = true;
                    }
                }
                if prev_val {
                    if ty.content_mode() == ContentMode::Mixed { f.split_mixed = true } else { f.split_chars = true }
                }
                prev_val = true;
                nvals += 1;
                n.items.push(MItem::Val(mval(&cd)));
            }
        }
    }
    if nvals > 1 && ty.content_mode() == ContentMode::Characters {
        f.split_chars = true;
    }
    n
}
/// first difference between two dumped models
fn mdiff(a: &MNode, b: &MNode, path: &str) -> Option<String> {
    let here = format!("{path}/{}", a.name);
    if a.name != b.name {
        return Some(format!("{path}: element {} vs {}", a.name, b.name));
    }
    if a.comment != b.comment {
        return Some(format!("{here}: comment {:?} vs {:?}", a.comment, b.comment));
    }
    if a.attrs != b.attrs {
        return Some(format!("{here}: attributes {:?} vs {:?}", a.attrs, b.attrs));
    }
    if a.items.len() != b.items.len() {
        return Some(format!("{here}: {} content items vs {}", a.items.len(), b.items.len()));
    }
    for (i, (x, y)) in a.items.iter().zip(b.items.iter()).enumerate() {
        match (x, y) {
            (MItem::Elem(p), MItem::Elem(q)) => {
                if let Some(d) = mdiff(p, q, &here) {
                    return Some(d);
                }
            }
            (MItem::Val(p), MItem::Val(q)) => {
                if p != q {
                    return Some(format!("{here}: content item {i}: {} vs {}", mval_str(p), mval_str(q)));
                }
            }
            _ => return Some(format!("{here}: content item {i} differs in kind")),
        }
    }
    None
}

// ------------------------------------------------------------------------------------------------------------
// C01-faithful: document (as read by `read_doc`) against the dumped model
// ------------------------------------------------------------------------------------------------------------

fn parse_uint(t: &str) -> Option<u64> {
    let d = t.strip_prefix('+').unwrap_or(t);
    if d.is_empty() || !d.bytes().all(|c| c.is_ascii_digit()) {
        return None;
    }
    let mut v: u64 = 0;
    for c in d.bytes() {
        v = v.checked_mul(10)?.checked_add((c - b'0') as u64)?;
    }
    Some(v)
}

/// the value the document text denotes under the given specification
fn expected_value(raw: &str, spec: &CharacterDataSpec) -> Option<MVal> {
    let t = trim_ws(raw);
    match spec {
        CharacterDataSpec::Enum { .. } => Some(MVal::E(t.to_string())),
        CharacterDataSpec::Pattern { .. } => decode(t).map(MVal::S),
        CharacterDataSpec::String { preserve_whitespace, .. } => decode(if *preserve_whitespace { raw } else { t }).map(MVal::S),
        CharacterDataSpec::UnsignedInteger => parse_uint(t).map(MVal::U),
        CharacterDataSpec::Float => t.parse::<f64>().ok().map(|f| MVal::F(fbits(f))),
    }
}

struct Diff {
    msg: String,
    sig: Option<&'static str>,
}

fn faithful(x: &XNode, comment: &Option<String>, m: &MNode, t: ElementType, ver: AutosarVersion, path: &str) -> Option<Diff> {
    let here = format!("{path}/{}", x.name);
    let d = |msg: String| Some(Diff { msg, sig: None });
    if x.name != m.name {
        return d(format!("{path}: document element {} loaded as {}", x.name, m.name));
    }
    if *comment != m.comment {
        return d(format!("{here}: comment before the start tag {:?} loaded as {:?}", comment, m.comment));
    }
    if x.attrs.len() != m.attrs.len() {
        return d(format!("{here}: document has {} attributes, model {}", x.attrs.len(), m.attrs.len()));
    }
    for (xa, (mn, mv)) in x.attrs.iter().zip(m.attrs.iter()) {
        if xa.name != *mn {
            return d(format!("{here}: attribute {} loaded as {}", xa.name, mn));
        }
        let spec = AttributeName::from_str(&xa.name).ok().and_then(|an| t.find_attribute_spec(an));
        let Some(spec) = spec else { return d(format!("{here}: attribute {} has no specification", xa.name)) };
        let exp = expected_value(&xa.raw, spec.spec);
        if exp.as_ref() != Some(mv) {
            return d(format!("{here}: attribute {}={:?} denotes {} but the model holds {}", xa.name, xa.raw, exp.as_ref().map(mval_str).unwrap_or("nothing".into()), mval_str(mv)));
        }
    }
    let preserve = matches!(t.chardata_spec(), Some(CharacterDataSpec::String { preserve_whitespace: true, .. }));
    enum Exp<'a> {
        El(&'a XNode, Option<String>),
        Tx(&'a str),
    }
    let mut exp: Vec<Exp> = vec![];
    let mut pending: Option<String> = None;
    for it in &x.items {
        match it {
            XItem::Comment(c) => pending = Some(c.clone()),
            XItem::Text(s) => {
                if s.is_empty() || (all_ws(s) && !preserve) {
                    continue;
                }
                exp.push(Exp::Tx(s));
            }
            XItem::Elem(n) => exp.push(Exp::El(n, pending.take())),
        }
    }
    if exp.len() != m.items.len() {
        let ws_only = preserve && exp.len() == 1 && m.items.is_empty() && matches!(exp[0], Exp::Tx(s) if all_ws(s));
        return Some(Diff {
            msg: format!("{here}: document has {} content items (elements and non-blank texts), model {}", exp.len(), m.items.len()),
            sig: if ws_only { Some("c01:whitespace-only-preserved-value-dropped") } else { None },
        });
    }
    for (i, (e, mi)) in exp.iter().zip(m.items.iter()).enumerate() {
        match (e, mi) {
            (Exp::El(n, c), MItem::Elem(mn)) => {
                let sub = ElementName::from_str(&n.name).ok().and_then(|en| t.find_sub_element(en, ver as u32).or_else(|| t.find_sub_element(en, u32::MAX)));
                let Some((st, _)) = sub else { return d(format!("{here}: sub element {} has no specification", n.name)) };
                if let Some(df) = faithful(n, c, mn, st, ver, &here) {
                    return Some(df);
                }
            }
            (Exp::Tx(s), MItem::Val(mv)) => {
                let Some(spec) = t.chardata_spec() else { return d(format!("{here}: text in an element without character data")) };
                let ev = expected_value(s, spec);
                if ev.as_ref() != Some(mv) {
                    return d(format!("{here}: content item {i}: text {:?} denotes {} but the model holds {}", s, ev.as_ref().map(mval_str).unwrap_or("nothing".into()), mval_str(mv)));
                }
            }
            _ => return d(format!("{here}: content item {i}: element/text kind differs between document and model")),
        }
    }
    None
}

// ------------------------------------------------------------------------------------------------------------
// oracle core: runs both modes on one document and returns the outcome with all violations
// ------------------------------------------------------------------------------------------------------------

#[derive(Clone)]
struct Fail {
    prop: &'static str,
    tag: &'static str,
    sig: Option<&'static str>,
    msg: String,
}
#[derive(Clone)]
enum Res {
    Ok(Vec<String>),
    Err(String),
    Panic,
}
struct Outcome {
    strict: Res,
    lenient: Res,
    fails: Vec<Fail>,
    elements: usize,
    strict_ans: String,
    lenient_ans: String,
}

const FNAME: &str = "f.arxml";

fn warn_key(e: &AutosarDataError) -> String {
    match e {
        AutosarDataError::ParserError { source, .. } => source.to_string(),
        o => o.to_string(),
    }
}
fn err_kind(e: &AutosarDataError) -> String {
    match e {
        AutosarDataError::ParserError { source, line, .. } => {
            let d = format!("{source:?}");
            format!("{}@{}", d.split(|c: char| !c.is_alphanumeric()).next().unwrap_or(""), line)
        }
        AutosarDataError::LexerError { source, line, .. } => format!("Lexer{source:?}@{line}"),
        o => format!("{o:?}").split(|c: char| !c.is_alphanumeric()).next().unwrap_or("").to_string(),
    }
}

type Loaded = (AutosarModel, ArxmlFile, Vec<AutosarDataError>);
fn load(bytes: &[u8], strict: bool) -> Result<Result<Loaded, AutosarDataError>, ()> {
    catch_unwind(AssertUnwindSafe(|| {
        let model = AutosarModel::new();
        match model.load_buffer(bytes, FNAME, strict) {
            Ok((f, w)) => Ok((model, f, w)),
            Err(e) => Err(e),
        }
    }))
    .map_err(|_| ())
}

fn classify_fixpoint(f: &Features) -> Option<&'static str> {
    if f.split_chars {
        Some("c01:comment-splits-character-data")
    } else if f.split_mixed {
        Some("c01:comment-splits-mixed-text")
    } else if f.ws_edge {
        Some("c01:charref-whitespace-not-stable")
    } else {
        None
    }
}

/// C01 oracles for one accepted load
fn check_accepted(bytes: &[u8], strict: bool, l: &Loaded, xdoc: &Result<XDoc, String>, ver_hint: Option<AutosarVersion>, fails: &mut Vec<Fail>) -> Option<(MNode, String)> {
    let (model, file, warnings) = l;
    let mode = if strict { "strict" } else { "lenient" };
    let r = catch_unwind(AssertUnwindSafe(|| {
        let mut out: Vec<Fail> = vec![];
        let ver = file.version();
        if let Some(v) = ver_hint {
            if v != ver && warnings.is_empty() {
                out.push(Fail { prop: "C01", tag: "version", sig: None, msg: format!("{mode}: a document labelled {} is loaded as version {}", v.filename(), ver.filename()) });
            }
        }
        // faithful (only for loads without warnings), before serialize() rewrites xsi:schemaLocation
        if warnings.is_empty() {
            match xdoc {
                Ok(x) => {
                    let mut f0 = Features::default();
                    let m0 = dump(&model.root_element(), &mut f0);
                    let mut rc: Option<String> = None;
                    for it in &x.pre {
                        if let XItem::Comment(c) = it {
                            rc = Some(c.clone());
                        }
                    }
                    let sa = if x.prolog.contains("standalone=\"yes\"") || x.prolog.contains("standalone='yes'") {
                        Some(true)
                    } else if x.prolog.contains("standalone=") {
                        Some(false)
                    } else {
                        None
                    };
                    if sa != file.xml_standalone() {
                        out.push(Fail { prop: "C01", tag: "standalone", sig: None, msg: format!("{mode}: xml declaration {:?} loaded with standalone = {:?}", x.prolog, file.xml_standalone()) });
                    }
                    if let Some(df) = faithful(&x.root, &rc, &m0, ElementType::ROOT, ver, "") {
                        out.push(Fail { prop: "C01", tag: "faithful", sig: df.sig, msg: format!("{mode}: model differs from the document: {}", df.msg) });
                    }
                }
                Err(e) => out.push(Fail { prop: "C01", tag: "reader", sig: None, msg: format!("{mode}: the loader accepts a document that the independent reader rejects ({e})") }),
            }
        }
        // fixpoint
        let s1 = match file.serialize() {
            Ok(s) => s,
            Err(e) => {
                out.push(Fail { prop: "C01", tag: "fixpoint-serialize", sig: None, msg: format!("{mode}: serialize() of the loaded file fails: {e}") });
                return (out, None);
            }
        };
        let mut f1 = Features::default();
        let m1 = dump(&model.root_element(), &mut f1);
        let sig = classify_fixpoint(&f1);
        let model2 = AutosarModel::new();
        match model2.load_buffer(s1.as_bytes(), FNAME, strict) {
            Err(e) => out.push(Fail { prop: "C01", tag: "fixpoint-reload", sig, msg: format!("{mode}: the serialized text of an accepted document is rejected on reload: {e}") }),
            Ok((file2, w2)) => {
                let k1: HashSet<String> = warnings.iter().map(warn_key).collect();
                for w in &w2 {
                    if !k1.contains(&warn_key(w)) {
                        out.push(Fail { prop: "C01", tag: "fixpoint-warnings", sig, msg: format!("{mode}: reloading the serialized text gives a warning the first load did not give: {w}") });
                        break;
                    }
                }
                let mut f2 = Features::default();
                let m2 = dump(&model2.root_element(), &mut f2);
                if let Some(d) = mdiff(&m1, &m2, "") {
                    out.push(Fail { prop: "C01", tag: "fixpoint-model", sig, msg: format!("{mode}: model after serialize+load differs (first vs reloaded): {d}") });
                }
                match file2.serialize() {
                    Ok(s2) => {
                        if s2 != s1 {
                            let p = s1.bytes().zip(s2.bytes()).position(|(a, b)| a != b).unwrap_or(s1.len().min(s2.len()));
                            let a = p.saturating_sub(30);
                            let cut = |s: &str| -> String { String::from_utf8_lossy(&s.as_bytes()[a.min(s.len())..(p + 30).min(s.len())]).into_owned() };
                            out.push(Fail { prop: "C01", tag: "fixpoint-text", sig, msg: format!("{mode}: second serialization differs from the first at byte {p}: {:?} vs {:?}", cut(&s1), cut(&s2)) });
                        }
                    }
                    Err(e) => out.push(Fail { prop: "C01", tag: "fixpoint-serialize", sig, msg: format!("{mode}: serialize() after reload fails: {e}") }),
                }
            }
        }
        (out, Some((m1, s1)))
    }));
    let _ = bytes;
    match r {
        Ok((out, ms)) => {
            fails.extend(out);
            ms
        }
        Err(_) => {
            fails.push(Fail { prop: "C12", tag: "panic", sig: None, msg: format!("{mode}: panic while dumping / serializing / reloading an accepted document") });
            None
        }
    }
}

fn check_doc(bytes: &[u8], ver_hint: Option<AutosarVersion>, expect_defect: bool) -> Outcome {
    let mut fails: Vec<Fail> = vec![];
    let xdoc = read_doc(bytes);
    let ls = load(bytes, true);
    let ll = load(bytes, false);
    let to_res = |l: &Result<Result<Loaded, AutosarDataError>, ()>| match l {
        Err(()) => Res::Panic,
        Ok(Err(e)) => Res::Err(e.to_string()),
        Ok(Ok((_, _, w))) => Res::Ok(w.iter().map(|x| x.to_string()).collect()),
    };
    let strict = to_res(&ls);
    let lenient = to_res(&ll);
    for (l, mode) in [(&ls, "strict"), (&ll, "lenient")] {
        if l.is_err() {
            fails.push(Fail { prop: "C12", tag: "panic", sig: None, msg: format!("load_buffer({mode}) panics") });
        }
    }
    let mut elements = 0;
    let ms = match &ls {
        Ok(Ok(l)) => {
            elements = catch_unwind(AssertUnwindSafe(|| l.0.elements_dfs().count())).unwrap_or(0);
            if !l.2.is_empty() {
                fails.push(Fail { prop: "C08", tag: "agree-strict-warn", sig: None, msg: format!("strict loading succeeds but returns warnings: {}", l.2[0]) });
            }
            check_accepted(bytes, true, l, &xdoc, ver_hint, &mut fails)
        }
        _ => None,
    };
    let ml = match &ll {
        Ok(Ok(l)) => check_accepted(bytes, false, l, &xdoc, ver_hint, &mut fails),
        _ => None,
    };
    // C08 agreement
    match (&strict, &lenient) {
        (Res::Ok(_), Res::Ok(w)) => {
            if !w.is_empty() {
                fails.push(Fail { prop: "C08", tag: "agree-a", sig: None, msg: format!("strict loading succeeds although lenient loading warns: {}", w[0]) });
            } else if let (Some((m1, s1)), Some((m2, s2))) = (&ms, &ml) {
                if let Some(d) = mdiff(m1, m2, "") {
                    fails.push(Fail { prop: "C08", tag: "agree-model", sig: None, msg: format!("strict and lenient loading produce different models: {d}") });
                } else if s1 != s2 {
                    fails.push(Fail { prop: "C08", tag: "agree-text", sig: None, msg: "strict and lenient loading produce different serializations".to_string() });
                }
            }
        }
        (Res::Ok(_), Res::Err(e)) => fails.push(Fail { prop: "C08", tag: "agree-c", sig: None, msg: format!("strict loading succeeds although lenient loading fails: {e}") }),
        (Res::Err(e), Res::Ok(w)) => {
            if w.is_empty() {
                fails.push(Fail { prop: "C08", tag: "agree-a", sig: None, msg: format!("lenient loading succeeds without warnings although strict loading fails: {e}") });
            } else if *e != w[0] {
                fails.push(Fail { prop: "C08", tag: "agree-b", sig: None, msg: format!("strict error {:?} differs from the first lenient warning {:?}", e, w[0]) });
            }
        }
        _ => {}
    }
    if expect_defect {
        if let Res::Ok(_) = strict {
            fails.push(Fail { prop: "C08", tag: "hole", sig: None, msg: "strict loading accepts a document with an injected defect".to_string() });
        }
    }
    Outcome { strict_ans: res_str(&ls), lenient_ans: res_str(&ll), strict, lenient, fails, elements }
}

fn res_str(l: &Result<Result<Loaded, AutosarDataError>, ()>) -> String {
    match l {
        Err(()) => "panic".into(),
        Ok(Err(e)) => format!("err {}", err_kind(e)),
        Ok(Ok((_, _, w))) => format!("ok({})", w.len()),
    }
}

// ------------------------------------------------------------------------------------------------------------
// specification helpers
// ------------------------------------------------------------------------------------------------------------

#[derive(Clone)]
struct Sub {
    name: ElementName,
    ty: ElementType,
    idx: Vec<usize>,
    mult: ElementMultiplicity,
    cmode: ContentMode,
}
struct Reach {
    /// (type, name, parent index) in BFS order; entry 0 is the root
    types: Vec<(ElementType, ElementName, usize)>,
    numeric: Vec<usize>,
    mixed: Vec<usize>,
    preserve: Vec<usize>,
    enums: Vec<usize>,
    choice: Vec<usize>,
}
struct Ctx {
    subs: HashMap<(ElementType, u32), Rc<Vec<Sub>>>,
    reach: HashMap<u32, Rc<Reach>>,
    choices: HashMap<(ElementType, u32), Rc<Vec<(usize, usize)>>>,
    pat_ok: HashMap<&'static str, Rc<Vec<&'static str>>>,
    all_names: Vec<ElementName>,
    counter: usize,
    allow_rare: bool,
    rare_used: Vec<&'static str>,
}

const PATTERN_POOL: &[&str] = &[
    "0xdeadbeef", "0xbaadf00d", "0x1F", "UNSPECIFIED", "ALL", "ANY", "000", "0", "1", "42", "ARRAY", "STRING", "false", "true",
    "_identifier", "identifier", "Abc_1", "2022-01-01T12:00:00Z", "2022-01-01", "1999-12-31T23:59:59+01:00", "identifier-", "09AZ_-", "%23.456d", "%d", "0b1010101",
    "-17", "+5", "192.168.0.1", "fe80:0:abcd:1234:0:0:0:1", "-INF", "INF", "NaN", "1.5e3", "3.25", "-0.5", "00:1A:2b:00:00:00",
    "aabb9_cd[x][y].cde", "Q_9", "1234567890", "123", "MAX-TEXT-SIZE", "-5", "/invalid", "/pkg/sub_1", "rel/path",
    "0.1.2_something", "1.2.3", "0.0.0-ab-c.0.0+zz-Z", "-x_y z", "ab cd", "0123", "PTR", "BOOLEAN", "UNKNOWN", "A", "A_b", "017", ".0", "a",
];
const BAD_POOL: &[&str] = &["!", "a!b", "~", "#?", "1 2 3 !", "{}", "0x", "-", "9a", "a b", "A", "7"];

impl Ctx {
    fn new() -> Ctx {
        Ctx { subs: HashMap::new(), reach: HashMap::new(), choices: HashMap::new(), pat_ok: HashMap::new(), all_names: vec![], counter: 0, allow_rare: false, rare_used: vec![] }
    }
    fn fresh(&mut self, prefix: &str) -> String {
        self.counter += 1;
        format!("{prefix}{}", self.counter)
    }
    /// sub elements of `t` that exist in version `ver`, one entry per name, in specification order
    fn subs_of(&mut self, t: ElementType, ver: AutosarVersion) -> Rc<Vec<Sub>> {
        if let Some(r) = self.subs.get(&(t, ver as u32)) {
            return r.clone();
        }
        let mut v: Vec<Sub> = vec![];
        let mut seen: HashSet<ElementName> = HashSet::new();
        for (name, _ty, mask, _named) in t.sub_element_spec_iter() {
            if mask & (ver as u32) == 0 || !seen.insert(name) {
                continue;
            }
            if let Some((ty, idx)) = t.find_sub_element(name, ver as u32) {
                let mult = t.get_sub_element_multiplicity(&idx).unwrap_or(ElementMultiplicity::Any);
                let cmode = t.get_sub_element_container_mode(&idx);
                v.push(Sub { name, ty, idx, mult, cmode });
            }
        }
        let r = Rc::new(v);
        self.subs.insert((t, ver as u32), r.clone());
        r
    }
    fn reach_of(&mut self, ver: AutosarVersion) -> Rc<Reach> {
        if let Some(r) = self.reach.get(&(ver as u32)) {
            return r.clone();
        }
        let mut types = vec![(ElementType::ROOT, ElementName::Autosar, 0usize)];
        let mut seen: HashSet<ElementType> = HashSet::new();
        seen.insert(ElementType::ROOT);
        let mut i = 0;
        while i < types.len() {
            let t = types[i].0;
            for s in self.subs_of(t, ver).iter() {
                if seen.insert(s.ty) {
                    types.push((s.ty, s.name, i));
                }
            }
            i += 1;
        }
        let (mut numeric, mut mixed, mut preserve, mut enums, mut choice) = (vec![], vec![], vec![], vec![], vec![]);
        for (i, (t, _, _)) in types.iter().enumerate() {
            match t.chardata_spec() {
                Some(CharacterDataSpec::UnsignedInteger) | Some(CharacterDataSpec::Float) => numeric.push(i),
                Some(CharacterDataSpec::String { preserve_whitespace: true, .. }) => preserve.push(i),
                Some(CharacterDataSpec::Enum { .. }) => enums.push(i),
                _ => {}
            }
            if t.content_mode() == ContentMode::Mixed {
                mixed.push(i);
            }
            if !self.choice_pairs(*t, ver).is_empty() {
                choice.push(i);
            }
        }
        let r = Rc::new(Reach { types, numeric, mixed, preserve, enums, choice });
        self.reach.insert(ver as u32, r.clone());
        r
    }
    /// pairs (a, b) of sub elements of `t` (indices into `subs_of`) whose common group is an exclusive choice
    fn choice_pairs(&mut self, t: ElementType, ver: AutosarVersion) -> Rc<Vec<(usize, usize)>> {
        if let Some(r) = self.choices.get(&(t, ver as u32)) {
            return r.clone();
        }
        let subs = self.subs_of(t, ver);
        let mut v = vec![];
        let n = subs.len().min(80);
        'outer: for a in 0..n {
            for b in 0..n {
                if a != b && subs[a].name != ElementName::ShortName && subs[b].name != ElementName::ShortName && t.find_common_group(&subs[a].idx, &subs[b].idx).content_mode() == ContentMode::Choice {
                    v.push((a, b));
                    if v.len() >= 40 {
                        break 'outer;
                    }
                }
            }
        }
        let r = Rc::new(v);
        self.choices.insert((t, ver as u32), r.clone());
        r
    }
    fn pattern_values(&mut self, regex: &'static str, check_fn: fn(&[u8]) -> bool, max: Option<usize>) -> Rc<Vec<&'static str>> {
        if let Some(r) = self.pat_ok.get(regex) {
            return r.clone();
        }
        let v: Vec<&'static str> = PATTERN_POOL.iter().copied().filter(|s| check_fn(s.as_bytes()) && max.map_or(true, |m| s.len() <= m)).collect();
        let r = Rc::new(v);
        self.pat_ok.insert(regex, r.clone());
        r
    }
}

fn versions_of_enum(items: &'static [(EnumItem, u32)], ver: AutosarVersion, valid: bool) -> Vec<EnumItem> {
    items.iter().filter(|(_, m)| (m & (ver as u32) != 0) == valid).map(|(i, _)| *i).collect()
}

// ------------------------------------------------------------------------------------------------------------
// value texts
// ------------------------------------------------------------------------------------------------------------

#[derive(Clone, Copy, PartialEq)]
enum Place {
    Elem,
    Attr(char),
}

const WORDS: &[&str] = &["lorem", "Ipsum42", "x_y", "\u{c4}\u{d6}\u{fc}", "\u{20ac}", "\u{65e5}\u{672c}", "a=b", "semi;colon", "#hash", "100%", "--", "]]", "q?", "/p/q", "\u{1f600}"];
const ENTS: &[&str] = &["&lt;", "&gt;", "&amp;", "&apos;", "&quot;", "&#65;", "&#x41;", "&#228;", "&#x20AC;", "&#x1f600;", "&#x1F600;", "&#xE4;", "&#00066;", "&#x0043;"];
const INNER_WS: &[&str] = &["", " ", "  ", "\t", "\n", "\r\n", " \n  "];
const EDGE_WS: &[&str] = &[" ", "\n  ", "\t", "\r\n", "  "];

fn gen_string(rng: &mut Rng, k: &mut Sink, cx: &mut Ctx, place: Place) -> String {
    let mut s = String::new();
    let n = 1 + rng.below(4);
    for i in 0..n {
        if i > 0 {
            let w = *rng.pick(INNER_WS);
            if !w.is_empty() {
                k.stat("feature:inner_whitespace");
            }
            s.push_str(w);
        }
        match rng.below(10) {
            0..=4 => s.push_str(pk(rng, WORDS)),
            5..=7 => {
                let e = *rng.pick(ENTS);
                k.stat(if e.starts_with("&#") { "feature:numeric_reference" } else { "feature:entity" });
                s.push_str(e);
            }
            8 => match place {
                Place::Elem => {
                    k.stat("feature:raw_quote_or_gt_in_text");
                    s.push_str(pk(rng, &["\"", "'", ">", "a > b", "'q'"]));
                }
                Place::Attr(q) => {
                    k.stat("feature:other_quote_in_attribute");
                    s.push(if q == '"' { '\'' } else { '"' });
                }
            },
            _ => s.push_str(pk(rng, WORDS)),
        }
    }
    if cx.allow_rare && rng.chance(1, 2) {
        // a white-space character written as a numeric reference at the edge of the value (reported finding)
        if rng.chance(1, 2) { s.insert_str(0, "&#32;") } else { s.push_str("&#10;") }
        cx.allow_rare = false;
        cx.rare_used.push("charref-whitespace-edge");
    }
    if rng.chance(1, 4) {
        k.stat("feature:leading_whitespace");
        s.insert_str(0, pk(rng, EDGE_WS));
    }
    if rng.chance(1, 4) {
        k.stat("feature:trailing_whitespace");
        s.push_str(pk(rng, EDGE_WS));
    }
    s
}

/// a character of a pattern value written as a numeric reference now and then
fn maybe_ref(rng: &mut Rng, k: &mut Sink, v: &str) -> String {
    if v.is_ascii() && !v.is_empty() && rng.chance(1, 10) {
        let p = rng.below(v.len());
        let c = v.as_bytes()[p];
        k.stat("feature:numeric_reference_in_pattern_value");
        let r = if rng.chance(1, 2) { format!("&#{};", c) } else { format!("&#x{:x};", c) };
        format!("{}{}{}", &v[..p], r, &v[p + 1..])
    } else {
        v.to_string()
    }
}

fn pad(rng: &mut Rng, k: &mut Sink, v: String) -> String {
    let mut s = v;
    if rng.chance(1, 6) {
        k.stat("feature:leading_whitespace");
        s.insert_str(0, pk(rng, EDGE_WS));
    }
    if rng.chance(1, 6) {
        k.stat("feature:trailing_whitespace");
        s.push_str(pk(rng, EDGE_WS));
    }
    s
}

/// raw text of a valid value for `spec` in version `ver`; `None` when no valid value is known
fn gen_value(rng: &mut Rng, k: &mut Sink, cx: &mut Ctx, spec: &'static CharacterDataSpec, ver: AutosarVersion, place: Place, plain: bool) -> Option<String> {
    match spec {
        CharacterDataSpec::Enum { items } => {
            let ok = versions_of_enum(items, ver, true);
            if ok.is_empty() {
                return None;
            }
            k.stat("value:enum");
            let v = rng.pick(&ok).to_str().to_string();
            Some(if plain { v } else { pad(rng, k, v) })
        }
        CharacterDataSpec::Pattern { check_fn, regex, max_length } => {
            let ok = cx.pattern_values(regex, *check_fn, *max_length);
            if ok.is_empty() {
                k.stat("pattern_without_candidate");
                return None;
            }
            k.stat("value:pattern");
            let v = rng.pick(&ok).to_string();
            if plain {
                return Some(v);
            }
            let v = maybe_ref(rng, k, &v);
            Some(pad(rng, k, v))
        }
        CharacterDataSpec::String { preserve_whitespace, .. } => {
            k.stat(if *preserve_whitespace { "value:string_preserve" } else { "value:string" });
            if plain {
                return Some("lorem ipsum".to_string());
            }
            Some(gen_string(rng, k, cx, place))
        }
        CharacterDataSpec::UnsignedInteger => {
            k.stat("value:uint");
            let v = rng.pick(&["0", "42", "18446744073709551615", "+7", "007", "1000000"]).to_string();
            Some(if plain { v } else { pad(rng, k, v) })
        }
        CharacterDataSpec::Float => {
            k.stat("value:float");
            let v = rng.pick(&["1.5", "-2", "1e10", "1.5E-3", "INF", "-INF", "NaN", ".5", "5.", "+1.0", "0", "3.141592653589793", "1e-320", "123456789.125", "1E21", "-30000000000000000000", "9223372036854775808", "18446744073709551616", "1e300"]).to_string();
            Some(if plain { v } else { pad(rng, k, v) })
        }
    }
}

// ------------------------------------------------------------------------------------------------------------
// generator 1: specification walk through the editing API (after /repo/autosar-data/examples/generate_files)
// ------------------------------------------------------------------------------------------------------------

fn api_cdata(rng: &mut Rng, k: &mut Sink, cx: &mut Ctx, spec: &'static CharacterDataSpec, ver: AutosarVersion) -> Option<CharacterData> {
    match spec {
        CharacterDataSpec::Enum { items } => versions_of_enum(items, ver, true).first().map(|i| CharacterData::Enum(*i)),
        CharacterDataSpec::Pattern { .. } => gen_value(rng, k, cx, spec, ver, Place::Elem, true).map(CharacterData::String),
        CharacterDataSpec::String { .. } => Some(CharacterData::String(rng.pick(&["lorem ipsum", "a < b & c > d", "\"quoted\" 'text'", "\u{e4}\u{20ac}"]).to_string())),
        CharacterDataSpec::UnsignedInteger => Some(CharacterData::UnsignedInteger(rng.below(1000) as u64)),
        CharacterDataSpec::Float => Some(CharacterData::Float(*rng.pick(&[std::f64::consts::PI, 0.0, -1.5, 1e21, 2.5e-7]))),
    }
}

struct Walk<'a> {
    rng: &'a mut Rng,
    k: &'a mut Sink,
    cx: &'a mut Ctx,
    ver: AutosarVersion,
    completed: HashSet<(ElementName, ElementName)>,
    counter: usize,
    created: usize,
    limit: usize,
}
impl Walk<'_> {
    fn helper(&mut self, elem: &Element, se: ElementName, named: bool) -> Result<Element, AutosarDataError> {
        if self.created >= self.limit {
            return Err(AutosarDataError::ItemDeleted);
        }
        let r = if named {
            let nm: String = format!("{}_{}", se.to_str().to_ascii_lowercase(), self.counter).chars().map(|c| if c == '-' { '_' } else { c }).collect();
            self.counter += 1;
            elem.create_named_sub_element(se, &nm)
        } else {
            elem.create_sub_element(se)
        };
        if r.is_ok() {
            self.created += 1;
        }
        r
    }
    fn fill(&mut self, elem: &Element) {
        let ty = elem.element_type();
        if elem.content_type() == ContentType::CharacterData {
            if let Some(spec) = ty.chardata_spec() {
                if let Some(cd) = api_cdata(self.rng, self.k, self.cx, spec, self.ver) {
                    if elem.set_character_data(cd).is_err() {
                        self.k.stat("specwalk:set_character_data_rejected");
                    }
                }
            }
        } else if elem.content_type() == ContentType::Mixed {
            let _ = elem.insert_character_content_item("xXxXx", 0);
        }
        for (an, spec, required) in ty.attribute_spec_iter() {
            let valid = ty.find_attribute_spec(an).map_or(false, |s| s.version & (self.ver as u32) != 0);
            if valid && (required || self.rng.chance(1, 12)) && elem.attribute_value(an).is_none() {
                if let Some(cd) = api_cdata(self.rng, self.k, self.cx, spec, self.ver) {
                    let _ = elem.set_attribute(an, cd);
                }
            }
        }
    }
    fn walk(&mut self, elem: &Element, depth: usize) -> (bool, bool) {
        self.fill(elem);
        let en = elem.element_name();
        let mut any = false;
        let mut complete = true;
        if depth > 60 {
            return (false, false);
        }
        for info in elem.list_valid_sub_elements() {
            let (se, named) = (info.element_name, info.is_named);
            if self.completed.contains(&(en, se)) {
                continue;
            }
            match self.helper(elem, se, named) {
                Ok(sub) => {
                    any = true;
                    if named {
                        self.completed.insert((se, ElementName::ShortName));
                    }
                    self.completed.insert((en, se));
                    let (sc, _) = self.walk(&sub, depth + 1);
                    if !sc {
                        self.completed.remove(&(en, se));
                        while let Ok(sub) = self.helper(elem, se, named) {
                            let (sc, sany) = self.walk(&sub, depth + 1);
                            if sc {
                                break;
                            }
                            if !sany {
                                complete = false;
                                let _ = elem.remove_sub_element(sub);
                                break;
                            }
                        }
                    }
                }
                Err(_) => complete = false,
            }
        }
        (complete, any)
    }
}

fn spec_walk(rng: &mut Rng, k: &mut Sink, cx: &mut Ctx, ver: AutosarVersion, limit: usize) -> Option<String> {
    let r = catch_unwind(AssertUnwindSafe(|| {
        let model = AutosarModel::new();
        let file = model.create_file("walk.arxml", ver).ok()?;
        let root = model.root_element();
        let mut w = Walk { rng, k, cx, ver, completed: HashSet::new(), counter: 1, created: 0, limit };
        w.walk(&root, 0);
        let created = w.created;
        k.stats.insert(format!("specwalk:elements_created:{}", ver.filename()), created as u64);
        file.serialize().ok()
    }));
    match r {
        Ok(t) => t,
        Err(_) => {
            k.fail(format!("[C12] panic in the editing API during the specification walk for {}", ver.filename()));
            None
        }
    }
}

// ------------------------------------------------------------------------------------------------------------
// slices of a specification-walk document
// ------------------------------------------------------------------------------------------------------------

fn collect_paths(n: &XNode, cur: &mut Vec<usize>, out: &mut Vec<Vec<usize>>) {
    for (i, it) in n.items.iter().enumerate() {
        if let XItem::Elem(c) = it {
            cur.push(i);
            out.push(cur.clone());
            collect_paths(c, cur, out);
            cur.pop();
        }
    }
}

/// copy of a subtree limited to `budget` elements (SHORT-NAME children always kept)
fn prune(n: &XNode, budget: &mut usize) -> XNode {
    let mut o = XNode { name: n.name.clone(), attrs: n.attrs.clone(), tag_ws: n.tag_ws.clone(), items: vec![], selfclose: true };
    let has_elem = n.items.iter().any(|i| matches!(i, XItem::Elem(_)));
    for it in &n.items {
        match it {
            XItem::Elem(c) => {
                if c.name == "SHORT-NAME" || *budget > 0 {
                    *budget = budget.saturating_sub(1);
                    o.items.push(XItem::Elem(prune(c, budget)));
                }
            }
            XItem::Text(t) => {
                if !(has_elem && all_ws(t)) {
                    o.items.push(it.clone());
                }
            }
            XItem::Comment(_) => o.items.push(it.clone()),
        }
    }
    o
}

fn make_slice(rng: &mut Rng, n: &XNode, path: &[usize]) -> XNode {
    if path.is_empty() {
        let mut budget = 40 + rng.below(120);
        return prune(n, &mut budget);
    }
    let mut o = XNode { name: n.name.clone(), attrs: n.attrs.clone(), tag_ws: String::new(), items: vec![], selfclose: true };
    if let Some(i) = n.first_elem_is_short_name() {
        if i != path[0] {
            o.items.push(n.items[i].clone());
        }
    }
    let elems: Vec<usize> = n.items.iter().enumerate().filter(|(i, it)| matches!(it, XItem::Elem(c) if c.name != "SHORT-NAME") && *i != path[0]).map(|(i, _)| i).collect();
    let mut extra: Vec<usize> = vec![];
    if !elems.is_empty() && rng.chance(1, 3) {
        extra.push(*rng.pick(&elems));
    }
    for (i, it) in n.items.iter().enumerate() {
        if i == path[0] {
            if let XItem::Elem(c) = it {
                o.items.push(XItem::Text("\n".into()));
                o.items.push(XItem::Elem(make_slice(rng, c, &path[1..])));
            }
        } else if extra.contains(&i) {
            if let XItem::Elem(c) = it {
                let mut budget = 10;
                o.items.push(XItem::Elem(prune(c, &mut budget)));
            }
        }
    }
    o
}

// ------------------------------------------------------------------------------------------------------------
// generator 2: grammar-directed small documents, written as text by `write_doc`
// ------------------------------------------------------------------------------------------------------------

const COMMENTS: &[&str] = &[" note ", "x<y>&z", "TODO: a - b", "", "line1\nline2", " &amp; not decoded ", "<AR-PACKAGE>", "\u{e4}\u{20ac}"];
const LAYOUT: &[&str] = &["", "", "\n", "\n  ", " ", "\t", "\r\n    "];

struct Gen<'a> {
    rng: &'a mut Rng,
    k: &'a mut Sink,
    cx: &'a mut Ctx,
    ver: AutosarVersion,
    budget: usize,
}

impl Gen<'_> {
    fn comment(&mut self, place: &str) -> XItem {
        self.k.stat(&format!("feature:comment_{place}"));
        XItem::Comment(self.rng.pick(COMMENTS).to_string())
    }
    fn layout(&mut self, items: &mut Vec<XItem>) {
        if self.rng.chance(1, 60) {
            // a processing instruction between elements (kept as raw text in the tree; the reader skips it)
            self.k.stat("feature:processing_instruction");
            items.push(XItem::Text(self.rng.pick(&["<?proc data?>", "<?x?>", "<?tool a=\"b\" c?>"]).to_string()));
        }
        let w = *self.rng.pick(LAYOUT);
        if !w.is_empty() {
            items.push(XItem::Text(w.to_string()));
        }
    }
    fn attrs(&mut self, t: ElementType, node: &mut XNode) -> bool {
        let specs: Vec<_> = t.attribute_spec_iter().collect();
        for (an, spec, required) in specs {
            let Some(asp) = t.find_attribute_spec(an) else { continue };
            if asp.version & (self.ver as u32) == 0 {
                if required {
                    return false;
                }
                continue;
            }
            if !(required || self.rng.chance(1, 5)) {
                continue;
            }
            let quote = if self.rng.chance(1, 3) { '\'' } else { '"' };
            self.k.stat(if quote == '"' { "feature:attribute_double_quoted" } else { "feature:attribute_single_quoted" });
            let Some(raw) = gen_value(self.rng, self.k, self.cx, spec, self.ver, Place::Attr(quote), false) else {
                if required {
                    return false;
                }
                continue;
            };
            let sep = self.rng.pick(&[" ", " ", " ", "  ", "\n", "\t", "\n    "]).to_string();
            node.attrs.push(XAttr { sep, name: an.to_str().to_string(), raw, quote });
        }
        if self.rng.chance(1, 10) {
            node.tag_ws = self.rng.pick(&[" ", "\n", "  "]).to_string();
        }
        true
    }
    /// element `name` of type `t`; `depth` = remaining levels below this element
    fn grow(&mut self, name: ElementName, t: ElementType, depth: usize) -> Option<XNode> {
        let mut node = XNode::new(name.to_str());
        node.selfclose = self.rng.chance(1, 2);
        if name != ElementName::Autosar && !self.attrs(t, &mut node) {
            return None;
        }
        self.budget = self.budget.saturating_sub(1);
        match t.content_mode() {
            ContentMode::Characters => {
                let spec = t.chardata_spec()?;
                if self.rng.chance(1, 25) {
                    self.k.stat("feature:empty_value");
                    return Some(node);
                }
                let is_name = name == ElementName::ShortName;
                let v = if is_name { Some(self.cx.fresh("n")) } else { gen_value(self.rng, self.k, self.cx, spec, self.ver, Place::Elem, false) }?;
                let v = if is_name { let r = maybe_ref(self.rng, self.k, &v); pad(self.rng, self.k, r) } else { v };
                if self.rng.chance(1, 30) {
                    node.items.push(self.comment("before_text"));
                }
                node.items.push(XItem::Text(v));
                if self.rng.chance(1, 30) {
                    node.items.push(self.comment("before_end_tag"));
                }
            }
            ContentMode::Mixed => {
                self.k.stat("feature:mixed_content_element");
                let subs = self.cx.subs_of(t, self.ver);
                let n = self.rng.below(6);
                let mut last_text = false;
                let named = subs.first().map_or(false, |s| s.name == ElementName::ShortName);
                if named {
                    self.k.stat("feature:named_mixed_content_element");
                    let sn = subs[0].clone();
                    let c = self.grow(sn.name, sn.ty, 0)?;
                    node.items.push(XItem::Elem(c));
                }
                let subs: Rc<Vec<Sub>> = if named { Rc::new(subs[1..].to_vec()) } else { subs };
                for _ in 0..n {
                    if !last_text && self.rng.chance(1, 2) {
                        let spec = t.chardata_spec()?;
                        let v = gen_value(self.rng, self.k, self.cx, spec, self.ver, Place::Elem, false)?;
                        node.items.push(XItem::Text(v));
                        last_text = true;
                        self.k.stat("feature:mixed_text_item");
                    } else if depth > 0 && !subs.is_empty() && self.budget > 0 {
                        let s = self.rng.pick(&subs).clone();
                        if let Some(c) = self.grow(s.name, s.ty, depth - 1) {
                            if self.rng.chance(1, 6) {
                                node.items.push(self.comment("before_element"));
                            } else if !last_text {
                                self.layout(&mut node.items);
                            }
                            node.items.push(XItem::Elem(c));
                            last_text = false;
                            self.k.stat("feature:mixed_sub_element");
                        }
                    }
                }
                if self.rng.chance(1, 20) {
                    node.items.push(self.comment("before_end_tag"));
                }
            }
            _ => {
                let subs = self.cx.subs_of(t, self.ver);
                let mut chosen: Vec<(Sub, usize)> = vec![];
                let named = subs.first().map_or(false, |s| s.name == ElementName::ShortName);
                let start = if named { 1 } else { 0 };
                if depth > 0 && subs.len() > start && self.budget > 0 {
                    let want = 1 + self.rng.below(4);
                    for _ in 0..want * 3 {
                        if chosen.len() >= want {
                            break;
                        }
                        let s = &subs[start + self.rng.below(subs.len() - start)];
                        if chosen.iter().any(|(c, _)| c.name == s.name) {
                            continue;
                        }
                        if chosen.iter().any(|(c, _)| t.find_common_group(&c.idx, &s.idx).content_mode() == ContentMode::Choice) {
                            continue;
                        }
                        if named && t.find_common_group(&subs[0].idx, &s.idx).content_mode() == ContentMode::Choice {
                            continue;
                        }
                        let single = (s.cmode == ContentMode::Sequence || s.cmode == ContentMode::Choice) && s.mult != ElementMultiplicity::Any;
                        let cnt = if single { 1 } else { 1 + self.rng.below(3) / 2 };
                        chosen.push((s.clone(), cnt));
                    }
                    chosen.sort_by(|a, b| a.0.idx.cmp(&b.0.idx));
                }
                if named {
                    let sn = subs[0].clone();
                    if let Some(c) = self.grow(sn.name, sn.ty, 0) {
                        self.layout(&mut node.items);
                        node.items.push(XItem::Elem(c));
                    }
                }
                for (s, cnt) in chosen {
                    for _ in 0..cnt {
                        if self.budget == 0 {
                            break;
                        }
                        if let Some(c) = self.grow(s.name, s.ty, depth - 1) {
                            self.layout(&mut node.items);
                            if self.rng.chance(1, 12) {
                                node.items.push(self.comment("before_element"));
                                if self.rng.chance(1, 3) {
                                    node.items.push(self.comment("before_element"));
                                }
                                self.layout(&mut node.items);
                            }
                            node.items.push(XItem::Elem(c));
                        }
                    }
                }
                if !node.items.is_empty() {
                    if self.rng.chance(1, 15) {
                        node.items.push(self.comment("before_end_tag"));
                    }
                    self.layout(&mut node.items);
                }
            }
        }
        Some(node)
    }
}

fn root_attrs(rng: &mut Rng, ver: AutosarVersion, label: Option<&str>) -> Vec<XAttr> {
    let mut v = vec![
        ("xsi:schemaLocation", format!("http://autosar.org/schema/r4.0 {}", label.unwrap_or(ver.filename()))),
        ("xmlns", "http://autosar.org/schema/r4.0".to_string()),
        ("xmlns:xsi", "http://www.w3.org/2001/XMLSchema-instance".to_string()),
    ];
    if rng.chance(1, 3) {
        let i = rng.below(3);
        let j = rng.below(3);
        v.swap(i, j);
    }
    v.into_iter()
        .map(|(n, r)| XAttr { sep: if rng.chance(1, 6) { "\n  ".into() } else { " ".into() }, name: n.to_string(), raw: r, quote: if rng.chance(1, 4) { '\'' } else { '"' } })
        .collect()
}

fn gen_prolog(rng: &mut Rng, k: &mut Sink) -> String {
    let q = if rng.chance(1, 4) { '\'' } else { '"' };
    let enc = *rng.pick(&["utf-8", "utf-8", "UTF-8", "utf8", "UTF8"]);
    let sa = match rng.below(6) {
        0 => format!(" standalone={q}yes{q}"),
        1 => format!(" standalone={q}no{q}"),
        _ => String::new(),
    };
    if !sa.is_empty() {
        k.stat("feature:standalone");
    }
    format!("<?xml version={q}1.0{q} encoding={q}{enc}{q}{sa}?>")
}

/// a grammar-directed document: a chain of single elements from the root to a random element type, a random tree below
fn gen_grammar_doc(rng: &mut Rng, k: &mut Sink, cx: &mut Ctx, ver: AutosarVersion) -> Option<XDoc> {
    let reach = cx.reach_of(ver);
    let pick_from = |rng: &mut Rng, l: &Vec<usize>| if l.is_empty() { 0 } else { *rng.pick(l) };
    let target = match rng.below(16) {
        0 | 1 => 0,
        2 | 3 => pick_from(rng, &reach.numeric),
        4 | 5 => pick_from(rng, &reach.mixed),
        6 => pick_from(rng, &reach.preserve),
        7 => pick_from(rng, &reach.enums),
        8 => pick_from(rng, &reach.choice),
        _ => rng.below(reach.types.len()),
    };
    let mut chain = vec![];
    let mut i = target;
    while i != 0 {
        chain.push((reach.types[i].1, reach.types[i].0));
        i = reach.types[i].2;
    }
    chain.reverse();
    let budget = 8 + rng.below(50);
    let mut g = Gen { rng, k, cx, ver, budget };
    // build bottom-up: the target subtree, then wrap it in the chain
    let depth = 1 + g.rng.below(6);
    let (tname, tty) = chain.last().copied().unwrap_or((ElementName::Autosar, ElementType::ROOT));
    let mut cur = g.grow(tname, tty, depth)?;
    for w in (0..chain.len()).rev() {
        let (pname, pty) = if w == 0 { (ElementName::Autosar, ElementType::ROOT) } else { chain[w - 1] };
        let mut p = XNode::new(pname.to_str());
        if w != 0 && !g.attrs(pty, &mut p) {
            return None;
        }
        let subs = g.cx.subs_of(pty, ver);
        if cur.name != "SHORT-NAME" && subs.first().map_or(false, |s| s.name == ElementName::ShortName) {
            let sn = subs[0].clone();
            if let Some(cs) = subs.iter().find(|s| s.name.to_str() == cur.name) {
                if pty.find_common_group(&sn.idx, &cs.idx).content_mode() == ContentMode::Choice {
                    g.k.stat("grammar:child_excludes_short_name");
                    return None;
                }
            }
            let c = g.grow(sn.name, sn.ty, 0)?;
            g.layout(&mut p.items);
            p.items.push(XItem::Elem(c));
        }
        g.layout(&mut p.items);
        if g.rng.chance(1, 12) {
            let c = g.comment("before_element");
            p.items.push(c);
        }
        p.items.push(XItem::Elem(cur));
        g.layout(&mut p.items);
        cur = p;
    }
    let mut root = cur;
    root.attrs = root_attrs(g.rng, ver, None);
    let mut pre = vec![];
    if g.rng.chance(3, 4) {
        pre.push(XItem::Text("\n".into()));
    }
    if g.rng.chance(1, 8) {
        pre.push(g.comment("before_root"));
        pre.push(XItem::Text("\n".into()));
    }
    let mut post = vec![];
    if g.rng.chance(1, 2) {
        post.push(XItem::Text(g.rng.pick(&["\n", " ", "\r\n", "\n\n"]).to_string()));
    }
    let bom = g.rng.chance(1, 8);
    if bom {
        g.k.stat("feature:bom");
    }
    let prolog = gen_prolog(g.rng, g.k);
    Some(XDoc { bom, prolog, pre, root, post })
}

// ------------------------------------------------------------------------------------------------------------
// generator 3: defect injection
// ------------------------------------------------------------------------------------------------------------

const CLASSES: &[&str] = &[
    "unknown-element", "element-unknown-in-context", "element-other-version", "unknown-attribute", "attribute-unknown-in-context",
    "attribute-other-version", "unknown-enum-value", "enum-value-not-in-enum", "enum-value-other-version", "choice-conflict",
    "repeated-single-adjacent", "repeated-single-gap", "removed-short-name", "removed-required-attribute", "over-long-value",
    "pattern-violation", "non-number", "malformed-entity", "text-after-root", "wrong-version-label",
];

struct Site {
    path: Vec<usize>,
    ty: ElementType,
}
fn typed_sites(n: &XNode, t: ElementType, ver: AutosarVersion, cur: &mut Vec<usize>, out: &mut Vec<Site>) {
    out.push(Site { path: cur.clone(), ty: t });
    for (i, it) in n.items.iter().enumerate() {
        if let XItem::Elem(c) = it {
            if let Some((st, _)) = ElementName::from_str(&c.name).ok().and_then(|en| t.find_sub_element(en, ver as u32)) {
                cur.push(i);
                typed_sites(c, st, ver, cur, out);
                cur.pop();
            }
        }
    }
}
fn node_at<'a>(root: &'a XNode, path: &[usize]) -> &'a XNode {
    let mut n = root;
    for i in path {
        if let XItem::Elem(c) = &n.items[*i] {
            n = c;
        }
    }
    n
}
fn node_at_mut<'a>(root: &'a mut XNode, path: &[usize]) -> &'a mut XNode {
    let mut n = root;
    for i in path {
        n = match &mut n.items[*i] {
            XItem::Elem(c) => c,
            _ => unreachable!(),
        };
    }
    n
}
/// index in `items` where a new child may be inserted (behind the SHORT-NAME when there is one)
fn insert_pos(rng: &mut Rng, n: &XNode) -> usize {
    let lo = n.first_elem_is_short_name().map_or(0, |i| i + 1);
    lo + rng.below(n.items.len() - lo + 1)
}
fn text_index(n: &XNode) -> Option<usize> {
    n.items.iter().position(|i| matches!(i, XItem::Text(t) if !all_ws(t)))
}
fn set_text(n: &mut XNode, v: String) {
    n.items.retain(|i| !matches!(i, XItem::Text(_)));
    n.items.push(XItem::Text(v));
}

struct Inj<'a> {
    rng: &'a mut Rng,
    k: &'a mut Sink,
    cx: &'a mut Ctx,
    ver: AutosarVersion,
}

impl Inj<'_> {
    /// minimal valid element (SHORT-NAME when named, required attributes, a value for character elements)
    fn minimal(&mut self, name: ElementName, ty: ElementType) -> XNode {
        let mut n = XNode::new(name.to_str());
        for (an, spec, required) in ty.attribute_spec_iter() {
            if required {
                if let Some(v) = gen_value(self.rng, self.k, self.cx, spec, self.ver, Place::Attr('"'), true) {
                    n.attrs.push(XAttr { sep: " ".into(), name: an.to_str().into(), raw: v, quote: '"' });
                }
            }
        }
        if ty.is_named_in_version(self.ver) {
            let mut sn = XNode::new("SHORT-NAME");
            sn.items.push(XItem::Text(self.cx.fresh("inj")));
            n.items.push(XItem::Elem(sn));
        } else if ty.content_mode() == ContentMode::Characters {
            if let Some(spec) = ty.chardata_spec() {
                if let Some(v) = gen_value(self.rng, self.k, self.cx, spec, self.ver, Place::Elem, true) {
                    n.items.push(XItem::Text(v));
                }
            }
        }
        n
    }

    /// value slots (element text or attribute) whose specification satisfies `pred`: (site index, Some(attr index) | None)
    fn slots(&self, doc: &XDoc, sites: &[Site], pred: &dyn Fn(&'static CharacterDataSpec) -> bool, need_text: bool) -> Vec<(usize, Option<usize>, &'static CharacterDataSpec)> {
        let mut v = vec![];
        for (si, s) in sites.iter().enumerate() {
            let n = node_at(&doc.root, &s.path);
            if s.ty.content_mode() == ContentMode::Characters {
                if let Some(spec) = s.ty.chardata_spec() {
                    if pred(spec) && (!need_text || text_index(n).is_some()) && n.name != "SHORT-NAME" {
                        v.push((si, None, spec));
                    }
                }
            }
            if s.path.is_empty() {
                continue;
            }
            for (ai, a) in n.attrs.iter().enumerate() {
                if let Some(asp) = AttributeName::from_str(&a.name).ok().and_then(|an| s.ty.find_attribute_spec(an)) {
                    if pred(asp.spec) {
                        v.push((si, Some(ai), asp.spec));
                    }
                }
            }
        }
        v
    }
    fn put(&mut self, doc: &mut XDoc, site: &Site, slot: Option<usize>, v: String) -> String {
        let n = node_at_mut(&mut doc.root, &site.path);
        match slot {
            None => {
                set_text(n, v);
                format!("text of {}", n.name)
            }
            Some(ai) => {
                n.attrs[ai].raw = v;
                n.attrs[ai].quote = '"';
                format!("attribute {} of {}", n.attrs[ai].name, n.name)
            }
        }
    }

    fn inject(&mut self, doc: &mut XDoc, class: &str) -> Option<String> {
        let ver = self.ver;
        let mut sites = vec![];
        typed_sites(&doc.root, ElementType::ROOT, ver, &mut vec![], &mut sites);
        let containers: Vec<usize> = sites.iter().enumerate().filter(|(_, s)| !matches!(s.ty.content_mode(), ContentMode::Characters)).map(|(i, _)| i).collect();
        match class {
            "unknown-element" => {
                let si = *self.rng.pick(&containers);
                let name = *self.rng.pick(&["BOGUS-ELEMENT", "AR-PACKAGEX", "short-name", "X"]);
                if ElementName::from_str(name).is_ok() {
                    return None;
                }
                let n = node_at_mut(&mut doc.root, &sites[si].path);
                let p = insert_pos(self.rng, n);
                n.items.insert(p, XItem::Elem(XNode::new(name)));
                Some(format!("unknown element {name} in {}", n.name))
            }
            "element-unknown-in-context" => {
                let si = self.rng.below(sites.len());
                let t = sites[si].ty;
                if self.cx.all_names.is_empty() {
                    let r = self.cx.reach_of(AutosarVersion::LATEST);
                    self.cx.all_names = r.types.iter().map(|x| x.1).collect();
                }
                let name = *self.rng.pick(&self.cx.all_names);
                if t.find_sub_element(name, u32::MAX).is_some() {
                    return None;
                }
                let n = node_at_mut(&mut doc.root, &sites[si].path);
                let p = if t.content_mode() == ContentMode::Characters { n.items.len() } else { insert_pos(self.rng, n) };
                n.items.insert(p, XItem::Elem(XNode::new(name.to_str())));
                Some(format!("element {} which is no sub element of {} in any version", name.to_str(), n.name))
            }
            "element-other-version" => {
                let mut cands = vec![];
                for &si in &containers {
                    let t = sites[si].ty;
                    for (name, _ty, mask, _n) in t.sub_element_spec_iter() {
                        if mask & (ver as u32) == 0 && t.find_sub_element(name, ver as u32).is_none() {
                            cands.push((si, name));
                        }
                    }
                    if cands.len() > 200 {
                        break;
                    }
                }
                if cands.is_empty() {
                    return None;
                }
                let (si, name) = *self.rng.pick(&cands);
                let t = sites[si].ty;
                // (the version mask comes from the listing `sub_element_spec_iter` alone: asking `get_sub_element_version_mask` again
                // here would make the injection depend on the very lookup the parser uses - a change of that lookup then silently
                // disabled this class, seed C08_5)
                let (ty, _idx) = t.find_sub_element(name, u32::MAX)?;
                let c = self.minimal(name, ty);
                let n = node_at_mut(&mut doc.root, &sites[si].path);
                let p = insert_pos(self.rng, n);
                n.items.insert(p, XItem::Elem(c));
                Some(format!("element {} in {} which does not exist in {}", name.to_str(), n.name, ver.filename()))
            }
            "unknown-attribute" => {
                let si = 1 + self.rng.below(sites.len().max(2) - 1);
                let s = sites.get(si)?;
                let name = *self.rng.pick(&["BOGUS", "uuid", "S2", "xml:lang"]);
                if AttributeName::from_str(name).is_ok() {
                    return None;
                }
                let n = node_at_mut(&mut doc.root, &s.path);
                let p = self.rng.below(n.attrs.len() + 1);
                n.attrs.insert(p, XAttr { sep: " ".into(), name: name.into(), raw: "x".into(), quote: '"' });
                Some(format!("unknown attribute {name} on {}", n.name))
            }
            "attribute-unknown-in-context" => {
                let si = 1 + self.rng.below(sites.len().max(2) - 1);
                let s = sites.get(si)?;
                let an = *self.rng.pick(&[AttributeName::Dest, AttributeName::Uuid, AttributeName::L, AttributeName::Gid, AttributeName::T, AttributeName::Base]);
                if s.ty.find_attribute_spec(an).is_some() {
                    return None;
                }
                let n = node_at_mut(&mut doc.root, &s.path);
                n.attrs.push(XAttr { sep: " ".into(), name: an.to_str().into(), raw: "x".into(), quote: '"' });
                Some(format!("attribute {} which {} does not have in any version", an.to_str(), n.name))
            }
            "attribute-other-version" => {
                let mut cands = vec![];
                for (si, s) in sites.iter().enumerate().skip(1) {
                    for (an, spec, _r) in s.ty.attribute_spec_iter() {
                        if s.ty.find_attribute_spec(an).map_or(false, |a| a.version & (ver as u32) == 0) {
                            cands.push((si, an, spec));
                        }
                    }
                }
                if cands.is_empty() {
                    return None;
                }
                let (si, an, spec) = *self.rng.pick(&cands);
                let v = gen_value(self.rng, self.k, self.cx, spec, ver, Place::Attr('"'), true).unwrap_or_else(|| "x".into());
                let n = node_at_mut(&mut doc.root, &sites[si].path);
                n.attrs.retain(|a| a.name != an.to_str());
                n.attrs.push(XAttr { sep: " ".into(), name: an.to_str().into(), raw: v, quote: '"' });
                Some(format!("attribute {} on {} which does not exist in {}", an.to_str(), n.name, ver.filename()))
            }
            "unknown-enum-value" | "enum-value-not-in-enum" | "enum-value-other-version" => {
                let other_only = class == "enum-value-other-version";
                let slots = self.slots(doc, &sites, &|s| matches!(s, CharacterDataSpec::Enum { items } if !other_only || items.iter().any(|(_, m)| m & (ver as u32) == 0)), false);
                if slots.is_empty() {
                    return None;
                }
                let (si, slot, spec) = *self.rng.pick(&slots);
                let CharacterDataSpec::Enum { items } = spec else { return None };
                let v = match class {
                    "unknown-enum-value" => {
                        let v = *self.rng.pick(&["BOGUS-ENUM-VALUE", "en", "True", "x y"]);
                        if EnumItem::from_str(v).is_ok() {
                            return None;
                        }
                        v.to_string()
                    }
                    "enum-value-not-in-enum" => {
                        let it = *self.rng.pick(&[EnumItem::Abstract, EnumItem::Aa, EnumItem::Zu, EnumItem::default, EnumItem::preserve, EnumItem::EcuInstance]);
                        if items.iter().any(|(i, _)| *i == it) {
                            return None;
                        }
                        it.to_str().to_string()
                    }
                    _ => {
                        let other = versions_of_enum(items, ver, false);
                        if other.is_empty() {
                            return None;
                        }
                        self.rng.pick(&other).to_str().to_string()
                    }
                };
                let w = self.put(doc, &sites[si], slot, v.clone());
                Some(format!("{class} {v:?} as {w}"))
            }
            "choice-conflict" => {
                let mut cands: Vec<usize> = vec![];
                for &si in &containers {
                    if !self.cx.choice_pairs(sites[si].ty, ver).is_empty() {
                        cands.push(si);
                    }
                }
                if cands.is_empty() {
                    return None;
                }
                let si = *self.rng.pick(&cands);
                let t = sites[si].ty;
                let pairs = self.cx.choice_pairs(t, ver);
                let subs = self.cx.subs_of(t, ver);
                let (ia, ib) = *self.rng.pick(&pairs);
                let (a, b) = (subs[ia].clone(), subs[ib].clone());
                if t.find_common_group(&a.idx, &b.idx).content_mode() != ContentMode::Choice {
                    return None;
                }
                let ca = self.minimal(a.name, a.ty);
                let cb = self.minimal(b.name, b.ty);
                let n = node_at_mut(&mut doc.root, &sites[si].path);
                let p = insert_pos(self.rng, n);
                n.items.insert(p, XItem::Elem(cb));
                n.items.insert(p, XItem::Elem(ca));
                Some(format!("alternatives {} and {} of an exclusive choice next to each other in {}", a.name.to_str(), b.name.to_str(), n.name))
            }
            "repeated-single-adjacent" | "repeated-single-gap" => {
                let mut cands = vec![];
                for &si in &containers {
                    let t = sites[si].ty;
                    let n = node_at(&doc.root, &sites[si].path);
                    let subs = self.cx.subs_of(t, ver);
                    for (i, it) in n.items.iter().enumerate() {
                        if let XItem::Elem(c) = it {
                            if c.name == "SHORT-NAME" {
                                continue;
                            }
                            if let Some(s) = subs.iter().find(|s| s.name.to_str() == c.name) {
                                if s.mult != ElementMultiplicity::Any && (s.cmode == ContentMode::Sequence || s.cmode == ContentMode::Choice) {
                                    cands.push((si, i));
                                }
                            }
                        }
                    }
                }
                if cands.is_empty() {
                    return None;
                }
                let (si, i) = *self.rng.pick(&cands);
                let fresh = self.cx.fresh("dup");
                let n = node_at_mut(&mut doc.root, &sites[si].path);
                let XItem::Elem(orig) = &n.items[i] else { return None };
                let mut clone = orig.clone();
                if let Some(j) = clone.first_elem_is_short_name() {
                    if let XItem::Elem(sn) = &mut clone.items[j] {
                        set_text(sn, fresh);
                    }
                }
                let cname = clone.name.clone();
                let is_other = |it: &XItem| matches!(it, XItem::Elem(c) if c.name != "SHORT-NAME" && c.name != cname);
                if class == "repeated-single-adjacent" {
                    n.items.insert(i + 1, XItem::Elem(clone));
                    Some(format!("single-occurrence element {cname} twice in a row in {}", n.name))
                } else if let Some(j) = (i + 1..n.items.len()).find(|j| is_other(&n.items[*j])) {
                    n.items.insert(j + 1, XItem::Elem(clone));
                    Some(format!("single-occurrence element {cname} repeated behind another element in {}", n.name))
                } else if let Some(j) = (0..i).rev().find(|j| is_other(&n.items[*j])) {
                    n.items.insert(j, XItem::Elem(clone));
                    Some(format!("single-occurrence element {cname} repeated with another element in between in {}", n.name))
                } else {
                    None
                }
            }
            "removed-short-name" => {
                let cands: Vec<usize> = sites.iter().enumerate().filter(|(_, s)| s.ty.is_named_in_version(ver) && node_at(&doc.root, &s.path).first_elem_is_short_name().is_some()).map(|(i, _)| i).collect();
                if cands.is_empty() {
                    return None;
                }
                let si = *self.rng.pick(&cands);
                let n = node_at_mut(&mut doc.root, &sites[si].path);
                let j = n.first_elem_is_short_name()?;
                n.items.remove(j);
                Some(format!("SHORT-NAME removed from {}", n.name))
            }
            "removed-required-attribute" => {
                let mut cands = vec![];
                for (si, s) in sites.iter().enumerate() {
                    let n = node_at(&doc.root, &s.path);
                    for (an, _sp, required) in s.ty.attribute_spec_iter() {
                        if required {
                            if let Some(ai) = n.attrs.iter().position(|a| a.name == an.to_str()) {
                                cands.push((si, ai));
                            }
                        }
                    }
                }
                if cands.is_empty() {
                    return None;
                }
                // the root has three required attributes and is always a candidate: prefer others
                let non_root: Vec<_> = cands.iter().copied().filter(|(si, _)| *si != 0).collect();
                let (si, ai) = if !non_root.is_empty() && self.rng.chance(4, 5) { *self.rng.pick(&non_root) } else { *self.rng.pick(&cands) };
                let n = node_at_mut(&mut doc.root, &sites[si].path);
                let a = n.attrs.remove(ai);
                Some(format!("required attribute {} removed from {}", a.name, n.name))
            }
            "over-long-value" => {
                let mut slots = self.slots(doc, &sites, &|s| matches!(s, CharacterDataSpec::Pattern { max_length: Some(_), .. } | CharacterDataSpec::String { max_length: Some(_), .. }), false);
                // SHORT-NAME elements are excluded from `slots` (their text is the identity of the parent); they are the main carrier of a length limit
                for (si, s) in sites.iter().enumerate() {
                    if let Some(spec) = s.ty.chardata_spec() {
                        if node_at(&doc.root, &s.path).name == "SHORT-NAME" && matches!(spec, CharacterDataSpec::Pattern { max_length: Some(_), .. }) {
                            slots.push((si, None, spec));
                        }
                    }
                }
                if slots.is_empty() {
                    return None;
                }
                let (si, slot, spec) = *self.rng.pick(&slots);
                let max = match spec {
                    CharacterDataSpec::Pattern { max_length: Some(m), .. } | CharacterDataSpec::String { max_length: Some(m), .. } => *m,
                    _ => return None,
                };
                let len = max + 1 + self.rng.below(40);
                let tail = self.cx.fresh("");
                let v: String = format!("L{}{}", "a".repeat(len - 1 - tail.len()), tail);
                let w = self.put(doc, &sites[si], slot, v);
                Some(format!("value of {len} bytes (limit {max}) as {w}"))
            }
            "pattern-violation" => {
                let mut slots = self.slots(doc, &sites, &|s| matches!(s, CharacterDataSpec::Pattern { .. }), false);
                for (si, s) in sites.iter().enumerate() {
                    if node_at(&doc.root, &s.path).name == "SHORT-NAME" {
                        if let Some(spec) = s.ty.chardata_spec() {
                            slots.push((si, None, spec));
                        }
                    }
                }
                if slots.is_empty() {
                    return None;
                }
                let (si, slot, spec) = *self.rng.pick(&slots);
                let CharacterDataSpec::Pattern { check_fn, regex, .. } = spec else { return None };
                let bad: Vec<&str> = BAD_POOL.iter().copied().filter(|b| !check_fn(b.as_bytes())).collect();
                if bad.is_empty() {
                    return None;
                }
                let mut v = self.rng.pick(&bad).to_string();
                if node_at(&doc.root, &sites[si].path).name == "SHORT-NAME" {
                    v.push_str(&self.cx.fresh(""));
                }
                if check_fn(v.as_bytes()) {
                    return None;
                }
                let w = self.put(doc, &sites[si], slot, v.clone());
                Some(format!("value {v:?} not matching {regex} as {w}"))
            }
            "non-number" => {
                let slots = self.slots(doc, &sites, &|s| matches!(s, CharacterDataSpec::UnsignedInteger | CharacterDataSpec::Float), false);
                if slots.is_empty() {
                    return None;
                }
                let (si, slot, spec) = *self.rng.pick(&slots);
                let v = match spec {
                    CharacterDataSpec::UnsignedInteger => *self.rng.pick(&["abc", "-1", "1.5", "0x10", "18446744073709551616", "1 2"]),
                    _ => *self.rng.pick(&["abc", "1.2.3", "0x10", "--1", "1e", "1,5"]),
                };
                let w = self.put(doc, &sites[si], slot, v.to_string());
                Some(format!("non-number {v:?} as {w}"))
            }
            "malformed-entity" => {
                let slots = self.slots(doc, &sites, &|s| matches!(s, CharacterDataSpec::String { .. } | CharacterDataSpec::Pattern { .. }), false);
                let mixed: Vec<usize> = sites.iter().enumerate().filter(|(_, s)| s.ty.content_mode() == ContentMode::Mixed).map(|(i, _)| i).collect();
                let ent = *self.rng.pick(&["&bogus;", "&#x;", "&#xZZ;", "&#+65;", "&", "&#;", "&#1114112;", "&#xD800;", "&amp", "&#65", "& amp;", "&#X41;"]);
                if !mixed.is_empty() && (slots.is_empty() || self.rng.chance(1, 3)) {
                    let si = *self.rng.pick(&mixed);
                    let n = node_at_mut(&mut doc.root, &sites[si].path);
                    n.items.insert(0, XItem::Text(format!("t{ent}u")));
                    return Some(format!("malformed entity {ent:?} in the mixed content of {}", n.name));
                }
                if slots.is_empty() {
                    return None;
                }
                let (si, slot, _spec) = *self.rng.pick(&slots);
                let n = node_at(&doc.root, &sites[si].path);
                let old = match slot {
                    None => text_index(n).and_then(|i| if let XItem::Text(t) = &n.items[i] { Some(trim_ws(t).to_string()) } else { None }).unwrap_or_default(),
                    Some(ai) => trim_ws(&n.attrs[ai].raw).to_string(),
                };
                let old = if slot.is_some() { old.replace('"', "") } else { old };
                let v = if self.rng.chance(1, 2) { format!("{old}{ent}") } else { format!("{ent}{old}") };
                if decode(trim_ws(&v)).is_some() {
                    return None;
                }
                let w = self.put(doc, &sites[si], slot, v.clone());
                Some(format!("malformed entity in value {v:?} as {w}"))
            }
            "text-after-root" => {
                let t = *self.rng.pick(&["x", "trailing text", "<AR-PACKAGES/>", "&amp;", "<X/>", "0"]);
                doc.post.push(XItem::Text(t.to_string()));
                Some(format!("data {t:?} after </AUTOSAR>"))
            }
            "wrong-version-label" => {
                let l = *self.rng.pick(&["AUTOSAR_99999.xsd", "AUTOSAR_4-3-1.xsd", "AUTOSAR_4-4-0.xsd", "AUTOSAR_4-5-0.xsd", "AUTOSAR_00054.xsd", "AUTOSAR_00041.xsd", "AUTOSAR_4-0-4.xsd", "AUTOSAR.xsd", "AUTOSAR_00053"]);
                if AutosarVersion::from_str(l).is_ok() {
                    return None;
                }
                let a = doc.root.attrs.iter_mut().find(|a| a.name == "xsi:schemaLocation")?;
                a.raw = format!("http://autosar.org/schema/r4.0 {l}");
                Some(format!("version label {l} in xsi:schemaLocation"))
            }
            _ => None,
        }
    }
}

// ------------------------------------------------------------------------------------------------------------
// driver: processing of one document, shrinking, run
// ------------------------------------------------------------------------------------------------------------

fn pk<'a>(rng: &mut Rng, v: &[&'a str]) -> &'a str {
    v[rng.below(v.len())]
}

fn fnv(b: &[u8]) -> u64 {
    let mut h: u64 = 0xcbf29ce484222325;
    for x in b {
        h = (h ^ *x as u64).wrapping_mul(0x100000001b3);
    }
    h
}

struct Shrinker {
    tag: &'static str,
    ver: Option<AutosarVersion>,
    expect_defect: bool,
    evals: usize,
    max_evals: usize,
    t0: Instant,
}
impl Shrinker {
    fn still_fails(&mut self, doc: &XDoc) -> bool {
        self.evals += 1;
        let b = write_doc(doc);
        check_doc(&b, self.ver, self.expect_defect).fails.iter().any(|f| f.tag == self.tag)
    }
    fn exhausted(&self) -> bool {
        self.evals >= self.max_evals || self.t0.elapsed().as_secs() >= 5
    }
    fn node(&mut self, doc: &mut XDoc, path: &mut Vec<usize>) {
        let mut i = node_at(&doc.root, path).items.len();
        while i > 0 {
            i -= 1;
            if self.exhausted() {
                return;
            }
            let it = node_at(&doc.root, path).items[i].clone();
            let removable = match &it {
                XItem::Elem(c) => c.name != "SHORT-NAME" || i != 0,
                XItem::Comment(_) => true,
                XItem::Text(t) => all_ws(t),
            };
            if !removable {
                continue;
            }
            if let XItem::Text(_) = it {
                node_at_mut(&mut doc.root, path).items.remove(i);
                continue;
            }
            node_at_mut(&mut doc.root, path).items.remove(i);
            if !self.still_fails(doc) {
                node_at_mut(&mut doc.root, path).items.insert(i, it);
            }
        }
        let n = node_at(&doc.root, path).items.len();
        for i in 0..n {
            if matches!(node_at(&doc.root, path).items[i], XItem::Elem(_)) {
                path.push(i);
                self.node(doc, path);
                path.pop();
            }
        }
    }
}
fn shrink(bytes: &[u8], tag: &'static str, ver: Option<AutosarVersion>, expect_defect: bool) -> Vec<u8> {
    let Ok(mut doc) = read_doc(bytes) else { return bytes.to_vec() };
    let mut s = Shrinker { tag, ver, expect_defect, evals: 0, max_evals: if bytes.len() > 200_000 { 40 } else { 300 }, t0: Instant::now() };
    let before = doc.clone();
    s.node(&mut doc, &mut vec![]);
    // white-space-only texts were dropped without testing: verify once
    if s.still_fails(&doc) { write_doc(&doc) } else if s.still_fails(&before) { write_doc(&before) } else { bytes.to_vec() }
}

struct Driver {
    k: Sink,
    out: String,
    nfail: usize,
}
impl Driver {
    fn report(&mut self, f: &Fail, bytes: &[u8], kind: &str, defects: &[String]) {
        self.nfail += 1;
        let file = format!("{}/fail_{}.txt", self.out, self.nfail);
        if self.nfail <= 200 {
            let _ = std::fs::write(&file, bytes);
        }
        let sig = f.sig.map(|s| format!("[sig={s}]")).unwrap_or_default();
        let d = if defects.is_empty() { String::new() } else { format!(" (injected: {})", defects.join("; ")) };
        self.k.fail(format!("[{}]{} {} in a {kind} document{d} replay={file}", f.prop, sig, f.msg));
    }
    fn process(&mut self, kind: &str, ver: AutosarVersion, bytes: &[u8], defects: &[String], classes: &[&str]) -> Outcome {
        let mut o = check_doc(bytes, Some(ver), !defects.is_empty());
        if kind == "known-empty-short-name" {
            for f in o.fails.iter_mut().filter(|f| f.tag == "hole") {
                f.sig = Some("c08:empty-short-name-accepted");
            }
        }
        let k = &mut self.k;
        k.stat("documents");
        k.stat(&format!("kind:{kind}"));
        let cat = match (&o.strict, &o.lenient) {
            (Res::Ok(_), _) => "accepted_by_strict",
            (Res::Err(_), Res::Ok(w)) if !w.is_empty() => "strict_rejects_lenient_warns",
            (Res::Err(_), Res::Err(_)) => "rejected_by_both",
            _ => "other_outcome",
        };
        k.stat(&format!("outcome:{cat}"));
        k.stat(&format!("outcome:{kind}:{cat}"));
        if let Res::Ok(_) = o.strict {
            k.stat(&format!("accepted_version:{}", ver.filename()));
            *k.stats.entry("elements_in_accepted_documents".into()).or_insert(0) += o.elements as u64;
        }
        if let Res::Ok(w) = &o.lenient {
            *k.stats.entry("lenient_warnings_total".into()).or_insert(0) += w.len() as u64;
        }
        for c in classes {
            k.stat(&format!("defect:{c}:injected"));
            if !matches!(o.strict, Res::Ok(_)) {
                k.stat(&format!("defect:{c}:rejected_by_strict"));
            }
            if classes.len() == 1 {
                k.stat(&format!("defect_alone:{c}:injected"));
                let kind = o.strict_ans.split('@').next().unwrap_or("").replace("err ", "");
                k.stat(&format!("defect_alone:{c}:strict={kind}"));
            }
        }
        let dl = if classes.is_empty() { String::new() } else { format!(" defects={}", classes.join(",")) };
        k.put(&format!("doc {kind} v={} h={:016x} len={}{dl}", ver.filename(), fnv(bytes), bytes.len()), &format!("strict={} lenient={}", o.strict_ans, o.lenient_ans), true);
        // the same document through the world protocol, so that the Lean model of the parser and of the serializer answers it
        // (quick tier: a sample of one document in six, chosen by the hash of the text, and no large ones)
        let sampled = THOROUGH.load(std::sync::atomic::Ordering::Relaxed) || (fnv(bytes) % 6 == 0 && bytes.len() <= 6_000);
        if sampled && bytes.len() <= 24_000 {
            k.stat("documents_sent_to_the_model");
            for (r, a) in crate::world::doc_lines(bytes, true) {
                k.put(&r, &a, false);
            }
        }
        let mut seen: HashSet<(&str, &str)> = HashSet::new();
        let mut sig_seen = false;
        for f in &o.fails {
            if !seen.insert((f.prop, f.tag)) {
                continue;
            }
            if f.sig.is_some() {
                if sig_seen {
                    continue;
                }
                sig_seen = true;
                self.report(f, bytes, kind, defects);
                continue;
            }
            let small = if f.tag == "hole" || f.tag == "panic" || self.nfail >= 12 { bytes.to_vec() } else { shrink(bytes, f.tag, Some(ver), !defects.is_empty()) };
            if small.len() < bytes.len() {
                let o2 = check_doc(&small, Some(ver), !defects.is_empty());
                if let Some(f2) = o2.fails.iter().find(|x| x.tag == f.tag) {
                    let f2 = f2.clone();
                    self.report(&f2, &small, kind, defects);
                    continue;
                }
            }
            self.report(f, bytes, kind, defects);
        }
        o
    }
}

const LATEST_HEAD: &str = "<?xml version=\"1.0\" encoding=\"utf-8\"?>\n<AUTOSAR xsi:schemaLocation=\"http://autosar.org/schema/r4.0 AUTOSAR_00053.xsd\" xmlns=\"http://autosar.org/schema/r4.0\" xmlns:xsi=\"http://www.w3.org/2001/XMLSchema-instance\">";

static THOROUGH: std::sync::atomic::AtomicBool = std::sync::atomic::AtomicBool::new(false);

pub fn run(out: &str, seed: u64, thorough: bool, _side: &str) {
    THOROUGH.store(thorough, std::sync::atomic::Ordering::Relaxed);
    let t0 = Instant::now();
    let prev = std::panic::take_hook();
    std::panic::set_hook(Box::new(|_| {}));
    let mut rng = Rng::new(seed);
    let mut cx = Ctx::new();
    let mut d = Driver { k: Sink::new(out), out: out.to_string(), nfail: 0 };
    let all = crate::specwalk::ALL_VERSIONS;
    let mut versions: Vec<AutosarVersion> = vec![];
    if thorough {
        versions.extend_from_slice(&all);
    } else {
        while versions.len() < 3 {
            let v = all[rng.below(20)];
            if !versions.contains(&v) {
                versions.push(v);
            }
        }
        versions.push(AutosarVersion::LATEST);
    }
    let n_slices = if thorough { 4000 } else { 1500 };
    let n_grammar = if thorough { 600_000 } else { 80_000 };
    let mut class_rr = 0usize;

    // a document with 1..3 injected defects; classes are taken round robin so that every class occurs
    let mut inject = |d: &mut Driver, rng: &mut Rng, cx: &mut Ctx, kind: &str, ver: AutosarVersion, base: &XDoc| {
        let mut doc = base.clone();
        let n = match rng.below(5) { 0 => 2, 1 => 3, _ => 1 };
        let mut descs = vec![];
        let mut classes: Vec<&str> = vec![];
        for _ in 0..n {
            for attempt in 0..6 {
                let c = if attempt == 0 { class_rr += 1; CLASSES[class_rr % CLASSES.len()] } else { *rng.pick(CLASSES) };
                let r = Inj { rng, k: &mut d.k, cx, ver }.inject(&mut doc, c);
                if let Some(desc) = r {
                    descs.push(desc);
                    classes.push(c);
                    break;
                }
            }
        }
        if descs.is_empty() {
            d.k.stat("defect:none_applicable");
            return;
        }
        let bytes = write_doc(&doc);
        d.process(&format!("{kind}+defect"), ver, &bytes, &descs, &classes);
    };

    // generator 1: specification walk per version, slices, defects in slices
    for ver in versions.clone() {
        let Some(text) = spec_walk(&mut rng, &mut d.k, &mut cx, ver, 400_000) else {
            d.k.fail(format!("[C01] the specification walk for {} cannot be serialized", ver.filename()));
            continue;
        };
        d.k.stats.insert(format!("specwalk:bytes:{}", ver.filename()), text.len() as u64);
        let o = d.process("specwalk", ver, text.as_bytes(), &[], &[]);
        if !matches!(o.strict, Res::Ok(_)) {
            d.k.fail(format!("[C01] strict loading rejects the serialized specification walk for {}: {}", ver.filename(), o.strict_ans));
        }
        let Ok(big) = read_doc(text.as_bytes()) else { continue };
        let mut paths = vec![];
        collect_paths(&big.root, &mut vec![], &mut paths);
        d.k.stats.insert(format!("specwalk:elements:{}", ver.filename()), paths.len() as u64 + 1);
        for i in 0..n_slices {
            let p = rng.pick(&paths).clone();
            let root = make_slice(&mut rng, &big.root, &p);
            let doc = XDoc { bom: false, prolog: big.prolog.clone(), pre: vec![XItem::Text("\n".into())], root, post: vec![] };
            let bytes = write_doc(&doc);
            let o = d.process("slice", ver, &bytes, &[], &[]);
            if !matches!(o.strict, Res::Ok(_)) {
                d.k.stat("slice_not_accepted");
                if d.k.stats.get("slice_not_accepted").copied().unwrap_or(0) <= 3 {
                    d.nfail += 1;
                    let file = format!("{}/fail_{}.txt", d.out, d.nfail);
                    let _ = std::fs::write(&file, &bytes);
                    d.k.fail(format!("[C01] a slice of the serialized specification walk is rejected by strict loading: {} replay={file}", o.strict_ans));
                }
            }
            if i % 3 != 2 {
                inject(&mut d, &mut rng, &mut cx, "slice", ver, &doc);
            }
        }
    }
    let t_walk = t0.elapsed().as_millis() as u64;

    // generator 2: grammar-directed documents of random versions, defects in half of them
    for i in 0..n_grammar {
        let ver = all[rng.below(all.len())];
        cx.allow_rare = rng.chance(1, 8000);
        let Some(doc) = gen_grammar_doc(&mut rng, &mut d.k, &mut cx, ver) else {
            d.k.stat("grammar:not_generated");
            continue;
        };
        cx.allow_rare = false;
        let bytes = write_doc(&doc);
        let rare = !cx.rare_used.is_empty();
        cx.rare_used.clear();
        let o = d.process(if rare { "grammar-rare" } else { "grammar" }, ver, &bytes, &[], &[]);
        if !matches!(o.strict, Res::Ok(_)) {
            d.k.stat("grammar_not_accepted");
            if d.k.stats.get("grammar_not_accepted").copied().unwrap_or(0) <= 3 {
                d.nfail += 1;
                let file = format!("{}/fail_{}.txt", d.out, d.nfail);
                let _ = std::fs::write(&file, &bytes);
                d.k.fail(format!("[C01] a grammar-directed document believed valid is rejected by strict loading: {} replay={file}", o.strict_ans));
            }
        }
        if i % 2 == 0 && !rare {
            inject(&mut d, &mut rng, &mut cx, "grammar", ver, &doc);
        }
        if i % 64 == 63 {
            // a comment behind the root element: well-formed XML, but the loader counts it as data after </AUTOSAR>
            // (strict rejects, lenient warns); only the agreement oracles apply
            let mut doc2 = doc.clone();
            doc2.post.push(XItem::Comment(rng.pick(COMMENTS).to_string()));
            let o = d.process("grammar-comment-after-root", ver, &write_doc(&doc2), &[], &[]);
            d.k.stat(if matches!(o.strict, Res::Ok(_)) { "comment_after_root:accepted_by_strict" } else { "comment_after_root:rejected_by_strict" });
        }
    }

    // known findings of the unchanged library and boundary observations: one hand-written document each
    let pk = |inner: &str| format!("{LATEST_HEAD}<AR-PACKAGES><AR-PACKAGE><SHORT-NAME>p</SHORT-NAME>{inner}</AR-PACKAGE></AR-PACKAGES></AUTOSAR>");
    let known: Vec<(&str, String)> = vec![
        ("known-comment-in-characters", format!("{LATEST_HEAD}<AR-PACKAGES><AR-PACKAGE><SHORT-NAME>ab<!--c-->cd</SHORT-NAME></AR-PACKAGE></AR-PACKAGES></AUTOSAR>")),
        ("known-comment-in-mixed-text", pk("<DESC><L-2 L=\"EN\">x <!--c--> y</L-2></DESC>")),
        ("known-charref-whitespace", pk("<DESC><L-2 L=\"EN\">z&#32;</L-2></DESC>")),
        ("known-blank-preserved-value", pk("<ADMIN-DATA><SDGS><SDG GID=\"g\"><SD GID=\"x\" xml:space=\"preserve\">   </SD></SDG></SDGS></ADMIN-DATA>")),
    ];
    for (kind, text) in known {
        d.process(kind, AutosarVersion::LATEST, text.as_bytes(), &[], &[]);
    }
    let text = format!("{LATEST_HEAD}<AR-PACKAGES><AR-PACKAGE><SHORT-NAME/></AR-PACKAGE></AR-PACKAGES></AUTOSAR>");
    d.process("known-empty-short-name", AutosarVersion::LATEST, text.as_bytes(), &["SHORT-NAME without a value (the empty text does not match the name pattern; the element has no name)".to_string()], &[]);
    let o = d.process("comment-after-root", AutosarVersion::LATEST, format!("{LATEST_HEAD}</AUTOSAR>\n<!-- trailing comment -->\n").as_bytes(), &[], &[]);
    d.k.stat(if matches!(o.strict, Res::Ok(_)) { "comment_after_root:accepted_by_strict" } else { "comment_after_root:rejected_by_strict" });

    std::panic::set_hook(prev);
    d.k.stats.insert("time_ms:specwalk_part".into(), t_walk);
    d.k.stats.insert("time_ms:total".into(), t0.elapsed().as_millis() as u64);
    d.k.stats.insert("versions_walked".into(), versions.len() as u64);
    d.k.finish(out, "");
}
