//! `eval`: answers a given request file with the real library (used for witness replay).
use crate::specwalk::Side;
use crate::util::*;

pub fn run(out: &str, reqfile: &str, side_path: &str) {
    let side = Side::load(side_path);
    let vals = crate::c19::collect(&side);
    let mut k = Sink::new(out);
    for line in std::fs::read_to_string(reqfile).expect("request file").lines() {
        let w: Vec<&str> = line.split(' ').collect();
        let ans = match w.as_slice() {
            ["validate", kk, hx] | ["dfa", kk, hx] => match (kk.parse::<usize>().ok().and_then(|x| vals.by_k.get(&x)), unhex(hx)) {
                (Some((f, _)), Some(b)) => match std::panic::catch_unwind(|| f(&b)) {
                    Ok(r) => format!("ok {r}"),
                    Err(_) => "panic".to_string(),
                },
                _ => "none".to_string(),
            },
            _ => "unsupported".to_string(),
        };
        k.put(line, &ans, true);
    }
    k.finish(out, "");
}
