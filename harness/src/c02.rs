//! C02 scenario: the loader is total. Arbitrary bytes through `load_buffer` (strict and lenient) and `check_buffer`.
//! Request `load <strict> <hex>`: the harness answers `ok w<n> <kind@line,…|->` (the warnings), `err L<kind>@<line>` (tokenizer
//! error) or `err P<kind>@<line>` (parser error); the Lean model of the tokenizer and the parser answers the same request.  Oracles: no panic, no hang (watchdog), error lines within
//! [1, 1 + number of newlines], `check_buffer` accepts whatever `load_buffer` accepts.
use crate::util::*;
use autosar_data::*;
use std::sync::atomic::{AtomicU64, Ordering};
use std::sync::Mutex;

static PROGRESS: AtomicU64 = AtomicU64::new(0);
static CURRENT: Mutex<Vec<u8>> = Mutex::new(Vec::new());

pub const HEAD: &str = "<?xml version=\"1.0\" encoding=\"utf-8\"?>\n<AUTOSAR xsi:schemaLocation=\"http://autosar.org/schema/r4.0 AUTOSAR_00053.xsd\" xmlns=\"http://autosar.org/schema/r4.0\" xmlns:xsi=\"http://www.w3.org/2001/XMLSchema-instance\">";

pub fn sample_doc() -> String {
    format!("{HEAD}\n<!-- comment -->\n<AR-PACKAGES>\n  <AR-PACKAGE UUID=\"12-34\">\n    <SHORT-NAME>pkg</SHORT-NAME>\n    <DESC><L-2 L=\"EN\">text &amp; <TT TYPE=\"sgml\">tt</TT> more</L-2></DESC>\n    <ELEMENTS>\n      <SYSTEM S='x'><SHORT-NAME>sys</SHORT-NAME><FIBEX-ELEMENTS><FIBEX-ELEMENT-REF-CONDITIONAL><FIBEX-ELEMENT-REF DEST=\"ECU-INSTANCE\">/pkg/ecu</FIBEX-ELEMENT-REF></FIBEX-ELEMENT-REF-CONDITIONAL></FIBEX-ELEMENTS></SYSTEM>\n      <ECU-INSTANCE><SHORT-NAME>ecu</SHORT-NAME><COM-ENABLE-MDT-FOR-CYCLIC-TRANSMISSION>true</COM-ENABLE-MDT-FOR-CYCLIC-TRANSMISSION></ECU-INSTANCE>\n      <CONTAINER-I-PDU><SHORT-NAME>c</SHORT-NAME><CONTAINER-TIMEOUT>1.5e-3</CONTAINER-TIMEOUT></CONTAINER-I-PDU>\n    </ELEMENTS>\n  </AR-PACKAGE>\n</AR-PACKAGES>\n</AUTOSAR>\n")
}

fn lex_kind(e: &ArxmlLexerError) -> &'static str {
    match e {
        ArxmlLexerError::IncompleteData => "incompleteData",
        ArxmlLexerError::InvalidElement => "invalidElement",
        ArxmlLexerError::InvalidProcessingInstruction => "invalidProcessingInstruction",
        ArxmlLexerError::InvalidXmlHeader => "invalidXmlHeader",
        ArxmlLexerError::InvalidComment => "invalidComment",
        _ => "other",
    }
}

fn one(k: &mut Sink, input: &[u8]) {
    {
        let mut c = CURRENT.lock().unwrap();
        c.clear();
        c.extend_from_slice(input);
    }
    PROGRESS.fetch_add(1, Ordering::Relaxed);
    let nl = input.iter().filter(|c| **c == b'\n').count();
    let mut accepted = false;
    for strict in [true, false] {
        let r = std::panic::catch_unwind(|| {
            let model = AutosarModel::new();
            model.load_buffer(input, "f.arxml", strict).map(|(_, w)| w.iter().map(|x| crate::world::load_err(x).trim_start_matches('P').to_string()).collect::<Vec<_>>())
        });
        let ans = match &r {
            Err(_) => {
                k.fail(format!("load_buffer(strict={strict}) panics on input hex {}", hex(input)));
                "panic".to_string()
            }
            Ok(Ok(w)) => {
                accepted = true;
                k.stat("load_ok");
                format!("ok w{} {}", w.len(), if w.is_empty() { "-".to_string() } else { w.join(",") })
            }
            Ok(Err(e)) => {
                let line = match e {
                    AutosarDataError::LexerError { line, .. } => Some(*line),
                    AutosarDataError::ParserError { line, .. } => Some(*line),
                    _ => None,
                };
                if let Some(l) = line {
                    if l < 1 || l > nl + 1 {
                        k.fail(format!("load_buffer(strict={strict}) reports line {l} for an input with {} lines: hex {}", nl + 1, hex(input)));
                    }
                }
                match e {
                    AutosarDataError::LexerError { source, .. } => {
                        k.stat("lexer_error");
                        k.stat(&format!("lexer_error:{}", lex_kind(source)));
                    }
                    _ => k.stat("parser_error"),
                }
                format!("err {}", crate::world::load_err(e))
            }
        };
        k.put(&format!("load {} {}", strict as u8, hex(input)), &ans, !input.is_empty());
    }
    let cb = std::panic::catch_unwind(|| check_buffer(input));
    match cb {
        Err(_) => k.fail(format!("check_buffer panics on input hex {}", hex(input))),
        Ok(b) => {
            if accepted && !b {
                k.fail(format!("check_buffer rejects a buffer that load_buffer accepts: hex {}", hex(input)));
            }
            if b { k.stat("check_true") }
            // the Lean model of `check_arxml_header` answers the same request
            k.put(&format!("chk {}", hex(input)), &format!("ok {b}"), !input.is_empty());
        }
    }
}

pub fn run(out: &str, seed: u64, thorough: bool, _side: &str) {
    let out_dir = out.to_string();
    // watchdog: if no input is finished for 10 s, report the current input and leave
    std::thread::spawn(move || {
        let mut last = 0;
        loop {
            std::thread::sleep(std::time::Duration::from_secs(10));
            let now = PROGRESS.load(Ordering::Relaxed);
            if now == last && now != 0 && now != u64::MAX {
                let cur = CURRENT.lock().map(|c| c.clone()).unwrap_or_default();
                let _ = std::fs::write(format!("{out_dir}/hang_input.bin"), &cur);
                let _ = std::fs::write(format!("{out_dir}/oracle.json"), format!("{{\"requests\": 1, \"distinct_nontrivial\": 0, \"oracle_failures\": [\"the loader does not return within 10 s on input hex {}\"], \"n_oracle_failures\": 1, \"samples\": [], \"stats\": {{}}}}", hex(&cur)));
                std::process::exit(3);
            }
            last = now;
        }
    });
    let prev = std::panic::take_hook();
    std::panic::set_hook(Box::new(|_| {}));
    let mut rng = Rng::new(seed);
    let mut k = Sink::new(out);
    // 1. exhaustive strings over the XML token alphabet
    let alpha: &[u8] = b"<>/?!-=\"'&;#x \nA";
    let maxlen = if thorough { 6 } else { 5 };
    let mut cur: Vec<Vec<u8>> = vec![vec![]];
    one(&mut k, b"");
    for _ in 0..maxlen {
        let mut next = Vec::with_capacity(cur.len() * alpha.len());
        for s in &cur {
            for a in alpha {
                let mut t = s.clone();
                t.push(*a);
                next.push(t);
            }
        }
        for t in &next { one(&mut k, t); }
        cur = next;
    }
    k.stats.insert("exhaustive_len".into(), maxlen as u64);
    // 2. token strings after a valid xml header and inside a valid root element
    let toks: [&[u8]; 22] = [b"<", b">", b"/", b"?", b"!", b"--", b"=", b"\"", b"'", b"&", b";", b"#", b"x", b" ", b"\n", b"A", b"<?xml", b"?>", b"<!--", b"-->", b"<AR-PACKAGES>", b"</AR-PACKAGES>"];
    let xmlhdr = b"<?xml version=\"1.0\" encoding=\"utf-8\"?>";
    let n2 = if thorough { 400_000 } else { 40_000 };
    for i in 0..n2 {
        let n = 1 + rng.below(6);
        let mut body = vec![];
        for _ in 0..n { let tok: &[u8] = toks[rng.below(toks.len())]; body.extend_from_slice(tok); }
        let mut t = vec![];
        match i % 3 {
            0 => { t.extend_from_slice(xmlhdr); t.extend_from_slice(&body); }
            1 => { t.extend_from_slice(HEAD.as_bytes()); t.extend_from_slice(&body); t.extend_from_slice(b"</AUTOSAR>"); }
            _ => { t.extend_from_slice(b"<?xml "); t.extend_from_slice(&body); t.extend_from_slice(b"?>"); }
        }
        one(&mut k, &t);
    }
    // 3. structure-aware mutations and every truncation of a valid document
    let doc = sample_doc().into_bytes();
    one(&mut k, &doc);
    for cut in 0..doc.len() { one(&mut k, &doc[..cut]); }
    let n3 = if thorough { 200_000 } else { 20_000 };
    for _ in 0..n3 {
        let mut t = doc.clone();
        for _ in 0..(1 + rng.below(3)) {
            if t.is_empty() { break; }
            match rng.below(7) {
                0 => { let p = rng.below(t.len()); t.remove(p); }
                1 => { let p = rng.below(t.len() + 1); let tok: &[u8] = toks[rng.below(toks.len())]; for (j, b) in tok.iter().enumerate() { t.insert(p + j, *b); } }
                2 => { let p = rng.below(t.len()); t[p] = rng.next() as u8; }
                3 => { let a = rng.below(t.len()); let b = (a + rng.below(40)).min(t.len()); t.drain(a..b); }
                4 => { let a = rng.below(t.len()); let b = (a + rng.below(40)).min(t.len()); let seg: Vec<u8> = t[a..b].to_vec(); let p = rng.below(t.len()); for (j, x) in seg.iter().enumerate() { t.insert(p + j, *x); } }
                5 => { let p = rng.below(t.len()); t[p] = *rng.pick(alpha); }
                _ => { let p = rng.below(t.len()); t.truncate(p); }
            }
        }
        one(&mut k, &t);
    }
    // 4. raw random bytes, invalid UTF-8, BOM variants
    for _ in 0..(if thorough { 100_000 } else { 10_000 }) {
        let l = rng.below(40);
        let t: Vec<u8> = (0..l).map(|_| rng.next() as u8).collect();
        one(&mut k, &t);
    }
    for pre in [&[0xEFu8, 0xBB, 0xBF][..], &[0xEF, 0xBB][..], &[0xFF, 0xFE][..], &[0xEF, 0xBB, 0xBF, 0xEF, 0xBB, 0xBF][..]] {
        let mut t = pre.to_vec();
        one(&mut k, &t);
        t.extend_from_slice(&doc);
        one(&mut k, &t);
    }
    // 4b. entity-like fragments followed by multi-byte characters at every alignment, in string-typed character data, in an
    // attribute value and in an attribute of the root element (which `check_buffer` reads too): code that slices the text at a
    // fixed byte offset after `&#` panics when the offset falls inside a multi-byte character (seed C02_6)
    {
        let frags: [&str; 7] = ["&#", "&#x", "&", "&amp", "&#1", "&#x1F", "&#;"];
        let wide: [&str; 4] = ["\u{e9}", "\u{20ac}", "\u{1f600}", "\u{e9}\u{20ac}"];
        for fr in frags {
            for pad in 0..20usize {
                for wch in wide {
                    let mut t = String::from(fr);
                    for _ in 0..pad { t.push('a'); }
                    for _ in 0..8 { t.push_str(wch); }
                    for tail in ["", ";", "x;"] {
                        let v = format!("{t}{tail}");
                        let d1 = format!("{HEAD}<AR-PACKAGES><AR-PACKAGE><SHORT-NAME>p</SHORT-NAME><ADMIN-DATA><SDGS><SDG GID=\"g\"><SD GID=\"g\">{v}</SD></SDG></SDGS></ADMIN-DATA></AR-PACKAGE></AR-PACKAGES></AUTOSAR>");
                        one(&mut k, d1.as_bytes());
                        let d2 = format!("{HEAD}<AR-PACKAGES><AR-PACKAGE><SHORT-NAME>p</SHORT-NAME><ADMIN-DATA><SDGS><SDG GID=\"{v}\"/></SDGS></ADMIN-DATA></AR-PACKAGE></AR-PACKAGES></AUTOSAR>");
                        one(&mut k, d2.as_bytes());
                        let d3 = HEAD.replacen("xmlns=\"http://autosar.org/schema/r4.0\"", &format!("xmlns=\"{v}\""), 1) + "</AUTOSAR>";
                        one(&mut k, d3.as_bytes());
                        k.stat("entity_fragment_multibyte_cases");
                    }
                }
            }
        }
    }

    // 5. moderately deep nesting in process (the extreme case runs in a child process, see `deep`)
    for depth in [10usize, 100, 300] {
        let mut t = HEAD.as_bytes().to_vec();
        for i in 0..depth { t.extend_from_slice(format!("<AR-PACKAGES><AR-PACKAGE><SHORT-NAME>p{i}</SHORT-NAME>").as_bytes()); }
        for _ in 0..depth { t.extend_from_slice(b"</AR-PACKAGE></AR-PACKAGES>"); }
        t.extend_from_slice(b"</AUTOSAR>");
        one(&mut k, &t);
    }
    PROGRESS.store(u64::MAX, Ordering::Relaxed);
    std::panic::set_hook(prev);
    // 6. pathological nesting depth in a child process (a stack overflow aborts the process)
    let exe = std::env::current_exe().unwrap();
    for depth in [20_000usize, 200_000] {
        let st = std::process::Command::new(&exe).args(["c02deep", "--seed", &depth.to_string()]).stdout(std::process::Stdio::null()).stderr(std::process::Stdio::null()).status();
        match st {
            Ok(s) if s.success() => k.stat("deep_ok"),
            Ok(s) => {
                k.stat("deep_abort");
                k.fail(format!("[sig=c02:stack-overflow-deep-nesting] loading a valid document nested {depth} packages deep kills the process ({s})"));
            }
            Err(e) => k.fail(format!("cannot run the deep-nesting child process: {e}")),
        }
    }
    k.finish(out, "");
}

/// child process: load a valid document of the given nesting depth
pub fn deep(depth: usize) {
    let mut t = HEAD.as_bytes().to_vec();
    for i in 0..depth { t.extend_from_slice(format!("<AR-PACKAGES><AR-PACKAGE><SHORT-NAME>p{i}</SHORT-NAME>").as_bytes()); }
    for _ in 0..depth { t.extend_from_slice(b"</AR-PACKAGE></AR-PACKAGES>"); }
    t.extend_from_slice(b"</AUTOSAR>");
    let model = AutosarModel::new();
    let r = model.load_buffer(&t, "deep.arxml", true);
    std::mem::forget(model); // dropping a very deep tree recurses as well; the point here is the loader
    std::process::exit(if r.is_ok() { 0 } else { 0 });
}
