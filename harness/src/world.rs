//! `world` scenario: operation histories on the real library + direct property oracles.
//!
//! The request/answer/dump format is the one of /verif/PROTOCOL.md.  Conventions fixed here where the protocol text
//! leaves a choice (none of them contradicts it):
//!  * the pieces of a model dump are joined without any separator: `M0{files=[..]tree=(..)index=[..]refs=[..]}`, the
//!    models follow each other directly (`ok M0{..}M1{..}`); with no model at all the answer is `ok ` (never generated);
//!  * file ids inside `f[..]` are separated by commas (`f[f0,f1]`), version bits are decimal;
//!  * `range e<p> <name>` uses `version = e<p>.min_version()` (answer `err` if that fails);
//!  * a malformed request, an unknown handle, an out-of-range name id or a text that is not UTF-8 is answered `err`
//!    (never generated);
//!  * `mkfile` answers `ok f<j> e<root>` exactly when the model's root element has no id yet.
//!
//! ## Extra requests (history kind `files` only; not part of PROTOCOL.md)
//!
//! ```text
//! addfile    e<x> f<j>   -> ok | err [ItemDeleted|ParentElementLocked]    (Element::add_to_file)
//! rmfromfile e<x> f<j>   -> ok | err [ItemDeleted|ParentElementLocked]    (Element::remove_from_file)
//! rmfile     m<k> f<j>   -> ok                                            (AutosarModel::remove_file; no id is reused)
//! load       m<k> <name-hex> <strict 0|1> <document-hex> -> ok f<j> w<n> <kind@line,…|-> e<new ids in document order> | err P<kind>@<line> | err L<kind>@<line> | err <Kind>
//!                                                                          (AutosarModel::load_buffer; merges into the model)
//! setver     f<j> <version-bit> -> ok | err                                (ArxmlFile::set_version)
//! ser        f<j>        -> ok <text-hex> | err                            (ArxmlFile::serialize; rewrites xsi:schemaLocation of the root)
//! compat     f<j> <version-bit> -> ok <mask> <A:e<id>:<attr>:<mask> | V:… | E:e<id>:<mask>, …  or ->   (query: check_version_compatibility)
//! ```
//! All three are state-changing (a `dump` follows them in the quick tier).  `f<j>` of a removed file stays a valid
//! (stale) handle.
//!
//! ## Harness-only pseudo requests (never written to req.txt; they appear in `fail_<n>.req` and are understood by `--replay`)
//!
//! `#dup m<k>` evaluates the `duplicate()` part of C13 on model k, `#twin e<a> e<b>` the order-independence part of C14.
//!
//! ## Direct oracles outside the task's list
//!
//! C17 (`--prop C17` or no `--prop`): every `setver f v` answers `ok` exactly when `check_version_compatibility(v)` of the file
//! listed nothing just before, the mask returned by the check (`setver` and `compat`) contains `v` exactly in that case, and
//! after `ok` the file reports `v` - also when `v` is the version the file already has.  The generator issues `compat` /
//! `setver` with the file's own version at the end of every history and right after a lenient `load`, always for files whose
//! content is not compatible with their own version (statistics `c17.*`, `oracle.c17_*`).  C14 statistics `sort.*`: how many
//! of the sorted containers order some children by content alone (no name / INDEX / DEFINITION-REF / DEST) and hold
//! reorderable, not yet sorted containers inside those children (kind `sort` builds such shapes in half of its histories).
//!
//! ## Rare triggers
//!
//! Triggers of known defect families are generated only in histories flagged for them (0.7 % - 1.5 % of the histories
//! each, printed as `rare-triggers=` in every failure message): container move/copy collisions, moves to an ancestor,
//! `cdata` on a MIXED element with children, `remove e<x> e<x>`, renames above dangling references, removal of the last
//! file / of the root from a file, stale file handles, edits of the attributes/comment of <AUTOSAR>, file splits that a
//! `move` or a SHORT-NAME inherits.  The `SIG_*` constants list all signatures; those below the comment
//! "families found by this scenario" are not part of the task's list.
//!
//! `AVH_DEBUG=1` prints every request verb and every library error to stderr and keeps the default panic hook.
use crate::util::*;
use autosar_data::*;
use autosar_data_specification::CharacterDataSpec;
use std::collections::{BTreeMap, HashMap, HashSet};
use std::fmt::Write as _;
use std::panic::{catch_unwind, AssertUnwindSafe};
use std::sync::{Arc, Mutex, OnceLock};
use std::time::{Duration, Instant};

// ------------------------------------------------------------------------------------------------
// small helpers
// ------------------------------------------------------------------------------------------------

/// number of items of the three name enums (discriminants are 0..n); checked against side.json in `run`
static LIMITS: OnceLock<(u16, u16, u16)> = OnceLock::new();
fn limits() -> (u16, u16, u16) {
    *LIMITS.get_or_init(|| (6459, 101, 2810))
}

fn ename(id: u16) -> Option<ElementName> {
    if id < limits().0 { Some(unsafe { std::mem::transmute::<u16, ElementName>(id) }) } else { None }
}
fn aname(id: u16) -> Option<AttributeName> {
    if id < limits().1 { Some(unsafe { std::mem::transmute::<u16, AttributeName>(id) }) } else { None }
}
fn eitem(id: u16) -> Option<EnumItem> {
    if id < limits().2 { Some(unsafe { std::mem::transmute::<u16, EnumItem>(id) }) } else { None }
}

fn silence_panics() {
    static ONCE: std::sync::Once = std::sync::Once::new();
    ONCE.call_once(|| {
        if std::env::var_os("AVH_DEBUG").is_none() {
            std::panic::set_hook(Box::new(|_| {}));
        }
    });
}

fn errs(e: &AutosarDataError) -> String {
    if std::env::var_os("AVH_DEBUG").is_some() {
        eprintln!("  err: {e:?}");
    }
    match e {
        AutosarDataError::ItemDeleted => "err ItemDeleted".to_string(),
        AutosarDataError::ParentElementLocked => "err ParentElementLocked".to_string(),
        _ => "err".to_string(),
    }
}

/// the variants of `ArxmlParserError` in declaration order (the Lean model numbers its error kinds alike)
const PARSER_KINDS: [&str; 27] = [
    "InvalidArxmlFileHeader", "UnexpectedXmlFileHeader", "UnknownAutosarVersion", "InvalidAutosarVersion", "IncorrectBeginElement",
    "InvalidBeginElement", "IncorrectEndElement", "InvalidEndElement", "ElementChoiceConflict", "ElementVersionError", "TooManySubElements",
    "RequiredSubelementMissing", "AttributeValueError", "UnknownAttributeError", "AttributeVersionError", "RequiredAttributeMissing",
    "CharacterContentForbidden", "EnumItemVersionError", "UnknownEnumItem", "InvalidEnumItem", "StringValueTooLong", "RegexMatchError",
    "Utf8Error", "UnexpectedEndOfFile", "InvalidNumber", "AdditionalDataError", "InvalidXmlEntity",
];
const LEXER_KINDS: [&str; 5] = ["IncompleteData", "InvalidElement", "InvalidProcessingInstruction", "InvalidXmlHeader", "InvalidComment"];

fn first_ident(s: &str) -> String {
    s.chars().take_while(|c| c.is_alphanumeric()).collect()
}

/// `P<kind>@<line>` for a parser error, `L<kind>@<line>` for a tokenizer error, the name of the variant otherwise
pub fn load_err(e: &AutosarDataError) -> String {
    match e {
        AutosarDataError::ParserError { line, source, .. } => {
            let name = first_ident(&format!("{source:?}"));
            match PARSER_KINDS.iter().position(|k| *k == name) {
                Some(i) => format!("P{i}@{line}"),
                None => format!("P?{name}@{line}"),
            }
        }
        AutosarDataError::LexerError { line, source, .. } => {
            let name = first_ident(&format!("{source:?}"));
            match LEXER_KINDS.iter().position(|k| *k == name) {
                Some(i) => format!("L{i}@{line}"),
                None => format!("L?{name}@{line}"),
            }
        }
        other => first_ident(&format!("{other:?}")),
    }
}

fn text_of(h: &str) -> Option<String> {
    String::from_utf8(unhex(h)?).ok()
}
fn hx(s: &str) -> String {
    hex(s.as_bytes())
}

pub fn fmt_val(cd: &CharacterData) -> String {
    match cd {
        CharacterData::String(s) => format!("S:{}", hx(s)),
        CharacterData::Enum(e) => format!("E:{}", id16(*e)),
        CharacterData::UnsignedInteger(u) => format!("U:{u}"),
        CharacterData::Float(f) => {
            if f.is_nan() { "F:nan".to_string() } else { format!("F:{:016x}", f.to_bits()) }
        }
    }
}

fn parse_val(s: &str) -> Option<CharacterData> {
    let (k, v) = s.split_once(':')?;
    match k {
        "S" => Some(CharacterData::String(text_of(v)?)),
        "E" => Some(CharacterData::Enum(eitem(v.parse().ok()?)?)),
        "U" => Some(CharacterData::UnsignedInteger(v.parse().ok()?)),
        "F" => {
            if v == "nan" {
                Some(CharacterData::Float(f64::NAN))
            } else if v.len() == 16 {
                Some(CharacterData::Float(f64::from_bits(u64::from_str_radix(v, 16).ok()?)))
            } else {
                None
            }
        }
        _ => None,
    }
}

fn handle(w: &str, c: char) -> Option<usize> {
    let r = w.strip_prefix(c)?;
    if r.is_empty() || !r.bytes().all(|b| b.is_ascii_digit()) {
        return None;
    }
    r.parse().ok()
}

/// word positions that hold element handles
pub fn handle_positions(verb: &str) -> &'static [usize] {
    match verb {
        "remove" | "setref" | "move" | "copy" | "#twin" => &[1, 2],
        "reset" | "newmodel" | "mkfile" | "sortm" | "lookup" | "refs" | "checkrefs" | "dump" | "rmfile" | "#dup" | "dup" | "compat" | "setver" | "load" | "ser" | "dfsf" => &[],
        _ => &[1],
    }
}

pub fn is_mutating(verb: &str) -> bool {
    matches!(
        verb,
        "reset" | "newmodel" | "mkfile" | "create" | "named" | "remove" | "rename" | "cdata" | "rmcdata" | "instext" | "rmtext" | "setref" | "attr"
            | "attrs" | "rmattr" | "move" | "copy" | "sort" | "sortm" | "comment" | "addfile" | "rmfromfile" | "rmfile" | "setver" | "load" | "ser" | "dup"
    )
}

// ------------------------------------------------------------------------------------------------
// 1. interpreter
// ------------------------------------------------------------------------------------------------

pub struct World {
    pub models: Vec<AutosarModel>,
    pub files: Vec<ArxmlFile>,
    pub elems: Vec<Element>,
    pub ids: HashMap<Element, usize>,
    /// id of the root element of every model (None until the first file is created)
    pub root_id: Vec<Option<usize>>,
}

impl World {
    pub fn new() -> World {
        silence_panics();
        World { models: vec![], files: vec![], elems: vec![], ids: HashMap::new(), root_id: vec![] }
    }

    fn reg(&mut self, e: &Element) -> usize {
        if let Some(i) = self.ids.get(e) {
            return *i;
        }
        let i = self.elems.len();
        self.elems.push(e.clone());
        self.ids.insert(e.clone(), i);
        i
    }

    pub fn eid(&self, e: &Element) -> String {
        match self.ids.get(e) {
            Some(i) => format!("e{i}"),
            None => "e?".to_string(),
        }
    }

    fn h_elem(&self, w: &str) -> Option<Element> {
        self.elems.get(handle(w, 'e')?).cloned()
    }
    fn h_model(&self, w: &str) -> Option<(usize, AutosarModel)> {
        let k = handle(w, 'm')?;
        self.models.get(k).map(|m| (k, m.clone()))
    }
    fn h_file(&self, w: &str) -> Option<ArxmlFile> {
        self.files.get(handle(w, 'f')?).cloned()
    }

    fn idlist(&self, l: Vec<WeakElement>) -> String {
        let mut v: Vec<(usize, String)> = l
            .iter()
            .filter_map(|w| w.upgrade())
            .map(|e| match self.ids.get(&e) {
                Some(i) => (*i, format!("e{i}")),
                None => (usize::MAX, "e?".to_string()),
            })
            .collect();
        v.sort();
        if v.is_empty() { "ok -".to_string() } else { format!("ok {}", v.into_iter().map(|x| x.1).collect::<Vec<_>>().join(",")) }
    }

    /// executes ONE protocol request on the real library
    pub fn exec(&mut self, req: &str) -> String {
        let w: Vec<&str> = req.split(' ').collect();
        if std::env::var_os("AVH_DEBUG").is_some() {
            eprintln!("REQ {}", w[0]);
        }
        match catch_unwind(AssertUnwindSafe(|| self.exec_inner(&w))) {
            Ok(Some(s)) => s,
            Ok(None) => "err".to_string(),
            Err(_) => "panic".to_string(),
        }
    }

    fn exec_inner(&mut self, w: &[&str]) -> Option<String> {
        let unit = |r: Result<(), AutosarDataError>| match r {
            Ok(()) => "ok".to_string(),
            Err(e) => errs(&e),
        };
        let n = w.len();
        Some(match w[0] {
            "reset" if n == 1 => {
                *self = World::new();
                "ok".to_string()
            }
            "newmodel" if n == 1 => {
                self.models.push(AutosarModel::new());
                self.root_id.push(None);
                format!("ok m{}", self.models.len() - 1)
            }
            "mkfile" if n == 4 => {
                let (k, m) = self.h_model(w[1])?;
                let name = text_of(w[2])?;
                let ver = AutosarVersion::from_val(w[3].parse::<u32>().ok()?)?;
                match m.create_file(name, ver) {
                    Ok(f) => {
                        self.files.push(f);
                        let j = self.files.len() - 1;
                        if self.root_id[k].is_none() {
                            let r = self.reg(&m.root_element());
                            self.root_id[k] = Some(r);
                            format!("ok f{j} e{r}")
                        } else {
                            format!("ok f{j}")
                        }
                    }
                    Err(e) => errs(&e),
                }
            }
            "create" if n == 3 || n == 4 => {
                let p = self.h_elem(w[1])?;
                let name = ename(w[2].parse().ok()?)?;
                let r = if n == 4 { p.create_sub_element_at(name, w[3].parse().ok()?) } else { p.create_sub_element(name) };
                match r {
                    Ok(e) => format!("ok e{}", self.reg(&e)),
                    Err(e) => errs(&e),
                }
            }
            "named" if n == 4 || n == 5 => {
                let p = self.h_elem(w[1])?;
                let name = ename(w[2].parse().ok()?)?;
                let item = text_of(w[3])?;
                let r = if n == 5 { p.create_named_sub_element_at(name, &item, w[4].parse().ok()?) } else { p.create_named_sub_element(name, &item) };
                match r {
                    Ok(e) => {
                        let i = self.reg(&e);
                        match e.get_sub_element(ElementName::ShortName) {
                            Some(sn) => format!("ok e{i} e{}", self.reg(&sn)),
                            None => format!("ok e{i}"),
                        }
                    }
                    Err(e) => errs(&e),
                }
            }
            "remove" if n == 3 => {
                let p = self.h_elem(w[1])?;
                let c = self.h_elem(w[2])?;
                unit(p.remove_sub_element(c))
            }
            "rename" if n == 3 => {
                let x = self.h_elem(w[1])?;
                unit(x.set_item_name(&text_of(w[2])?))
            }
            "cdata" if n == 3 => {
                let x = self.h_elem(w[1])?;
                unit(x.set_character_data(parse_val(w[2])?))
            }
            "rmcdata" if n == 2 => unit(self.h_elem(w[1])?.remove_character_data()),
            "instext" if n == 4 => {
                let x = self.h_elem(w[1])?;
                unit(x.insert_character_content_item(&text_of(w[3])?, w[2].parse().ok()?))
            }
            "rmtext" if n == 3 => unit(self.h_elem(w[1])?.remove_character_content_item(w[2].parse().ok()?)),
            "setref" if n == 3 => {
                let x = self.h_elem(w[1])?;
                let t = self.h_elem(w[2])?;
                unit(x.set_reference_target(&t))
            }
            "attr" if n == 4 => {
                let x = self.h_elem(w[1])?;
                unit(x.set_attribute(aname(w[2].parse().ok()?)?, parse_val(w[3])?))
            }
            "attrs" if n == 4 => {
                let x = self.h_elem(w[1])?;
                unit(x.set_attribute_string(aname(w[2].parse().ok()?)?, &text_of(w[3])?))
            }
            "rmattr" if n == 3 => {
                let x = self.h_elem(w[1])?;
                format!("ok {}", x.remove_attribute(aname(w[2].parse().ok()?)?))
            }
            "move" if n == 3 || n == 4 => {
                let p = self.h_elem(w[1])?;
                let x = self.h_elem(w[2])?;
                let r = if n == 4 { p.move_element_here_at(&x, w[3].parse().ok()?) } else { p.move_element_here(&x) };
                match r {
                    Ok(_) => "ok".to_string(),
                    Err(e) => errs(&e),
                }
            }
            "copy" if n == 3 || n == 4 => {
                let p = self.h_elem(w[1])?;
                let x = self.h_elem(w[2])?;
                let r = if n == 4 { p.create_copied_sub_element_at(&x, w[3].parse().ok()?) } else { p.create_copied_sub_element(&x) };
                match r {
                    Ok(c) => {
                        let mut s = String::from("ok");
                        for (_, e) in c.elements_dfs() {
                            let _ = write!(s, " e{}", self.reg(&e));
                        }
                        s
                    }
                    Err(e) => errs(&e),
                }
            }
            "dup" if n == 2 => {
                let (_, m) = self.h_model(w[1])?;
                match m.duplicate() {
                    Ok(c) => {
                        self.models.push(c.clone());
                        self.root_id.push(None);
                        let km = self.models.len() - 1;
                        let mut s = format!("ok m{km}");
                        let files: Vec<ArxmlFile> = c.files().collect();
                        for f in files.iter() {
                            self.files.push(f.clone());
                            let _ = write!(s, " f{}", self.files.len() - 1);
                        }
                        if !files.is_empty() {
                            for (d, e) in c.elements_dfs() {
                                let r = self.reg(&e);
                                if d == 0 {
                                    self.root_id[km] = Some(r);
                                }
                                let _ = write!(s, " e{r}");
                            }
                        }
                        s
                    }
                    Err(e) => errs(&e),
                }
            }
            "sort" if n == 2 => {
                self.h_elem(w[1])?.sort();
                "ok".to_string()
            }
            "sortm" if n == 2 => {
                self.h_model(w[1])?.1.sort();
                "ok".to_string()
            }
            "comment" if n == 3 => {
                let x = self.h_elem(w[1])?;
                x.set_comment(if w[2] == "-" { None } else { Some(text_of(w[2])?) });
                "ok".to_string()
            }
            // ---- extra requests of the history kind `files` ----
            "addfile" if n == 3 => {
                let x = self.h_elem(w[1])?;
                let f = self.h_file(w[2])?;
                unit(x.add_to_file(&f))
            }
            "rmfromfile" if n == 3 => {
                let x = self.h_elem(w[1])?;
                let f = self.h_file(w[2])?;
                unit(x.remove_from_file(&f))
            }
            "rmfile" if n == 3 => {
                let (_, m) = self.h_model(w[1])?;
                let f = self.h_file(w[2])?;
                m.remove_file(&f);
                "ok".to_string()
            }
            "load" if n == 5 => {
                let (k, m) = self.h_model(w[1])?;
                let name = text_of(w[2])?;
                let strict = w[3] == "1";
                let text = unhex(w[4])?;
                match m.load_buffer(&text, name, strict) {
                    Ok((f, warnings)) => {
                        self.files.push(f);
                        let j = self.files.len() - 1;
                        let wl: Vec<String> = warnings.iter().map(|w| load_err(w).trim_start_matches('P').to_string()).collect();
                        let mut s = format!("ok f{j} w{} {}", warnings.len(), if wl.is_empty() { "-".to_string() } else { wl.join(",") });
                        let all: Vec<Element> = m.elements_dfs().map(|(_, e)| e).collect();
                        for e in all {
                            if !self.ids.contains_key(&e) {
                                let i = self.reg(&e);
                                if self.root_id[k].is_none() && matches!(e.parent(), Ok(None)) {
                                    self.root_id[k] = Some(i);
                                }
                                let _ = write!(s, " e{i}");
                            }
                        }
                        s
                    }
                    Err(e) => {
                        let base = errs(&e);
                        if base == "err" { format!("err {}", load_err(&e)) } else { base }
                    }
                }
            }
            "ser" if n == 2 => {
                let f = self.h_file(w[1])?;
                match f.serialize() {
                    Ok(t) => format!("ok {}", hx(&t)),
                    Err(_) => "err".to_string(),
                }
            }
            "setver" if n == 3 => {
                let f = self.h_file(w[1])?;
                let ver = AutosarVersion::from_val(w[2].parse::<u32>().ok()?)?;
                unit(f.set_version(ver))
            }
            // ---- queries ----
            "compat" if n == 3 => {
                let f = self.h_file(w[1])?;
                let ver = AutosarVersion::from_val(w[2].parse::<u32>().ok()?)?;
                let (errors, mask) = f.check_version_compatibility(ver);
                let items: Vec<String> = errors
                    .iter()
                    .map(|e| match e {
                        CompatibilityError::IncompatibleAttribute { element, attribute, version_mask } => format!("A:{}:{}:{}", self.eid(element), id16(*attribute), version_mask),
                        CompatibilityError::IncompatibleAttributeValue { element, attribute, version_mask, .. } => format!("V:{}:{}:{}", self.eid(element), id16(*attribute), version_mask),
                        CompatibilityError::IncompatibleElement { element, version_mask } => format!("E:{}:{}", self.eid(element), version_mask),
                    })
                    .collect();
                format!("ok {mask} {}", if items.is_empty() { "-".to_string() } else { items.join(",") })
            }
            "path" if n == 2 => match self.h_elem(w[1])?.path() {
                Ok(p) => format!("ok {}", hx(&p)),
                Err(e) => errs(&e),
            },
            "parent" if n == 2 => match self.h_elem(w[1])?.parent() {
                Ok(Some(p)) => format!("ok {}", self.eid(&p)),
                Ok(None) => "ok model".to_string(),
                Err(e) => errs(&e),
            },
            "pos" if n == 2 => match self.h_elem(w[1])?.position() {
                Some(p) => format!("ok {p}"),
                None => "none".to_string(),
            },
            "dfs" if n == 3 => {
                let e = self.h_elem(w[1])?;
                let d: usize = w[2].parse().ok()?;
                let l: Vec<String> = e.elements_dfs_with_max_depth(d).map(|(dp, x)| format!("{dp}:{}", self.eid(&x))).collect();
                if l.is_empty() { "ok -".to_string() } else { format!("ok {}", l.join(",")) }
            }
            "dfsf" if n == 3 => {
                let f = self.h_file(w[1])?;
                let d: usize = w[2].parse().ok()?;
                let l: Vec<String> = f.elements_dfs_with_max_depth(d).map(|(dp, x)| format!("{dp}:{}", self.eid(&x))).collect();
                if l.is_empty() { "ok -".to_string() } else { format!("ok {}", l.join(",")) }
            }
            "subs" if n == 2 => {
                let e = self.h_elem(w[1])?;
                let l: Vec<String> = e.sub_elements().map(|x| self.eid(&x)).collect();
                if l.is_empty() { "ok -".to_string() } else { format!("ok {}", l.join(",")) }
            }
            "target" if n == 2 => match self.h_elem(w[1])?.get_reference_target() {
                Ok(t) => format!("ok {}", self.eid(&t)),
                Err(e) => errs(&e),
            },
            "lookup" if n == 3 => match self.h_model(w[1])?.1.get_element_by_path(&text_of(w[2])?) {
                Some(e) => format!("ok {}", self.eid(&e)),
                None => "none".to_string(),
            },
            "refs" if n == 3 => {
                let l = self.h_model(w[1])?.1.get_references_to(&text_of(w[2])?);
                self.idlist(l)
            }
            "checkrefs" if n == 2 => {
                let l = self.h_model(w[1])?.1.check_references();
                self.idlist(l)
            }
            "range" if n == 3 => {
                let p = self.h_elem(w[1])?;
                let name = ename(w[2].parse().ok()?)?;
                match p.min_version().and_then(|v| p.calc_element_insert_range(name, v)) {
                    Ok((lo, hi)) => format!("ok {lo} {hi}"),
                    Err(e) => errs(&e),
                }
            }
            "valid" if n == 2 => {
                let l = self.h_elem(w[1])?.list_valid_sub_elements();
                if l.is_empty() {
                    "ok -".to_string()
                } else {
                    format!("ok {}", l.iter().map(|v| format!("{}:{}:{}", id16(v.element_name), v.is_named as u8, v.is_allowed as u8)).collect::<Vec<_>>().join(","))
                }
            }
            "dump" if n == 1 => self.dump(),
            _ => return None,
        })
    }

    // ---- canonical dump ----

    fn fid(&self, f: &ArxmlFile) -> usize {
        self.files.iter().position(|x| x == f).unwrap_or(usize::MAX)
    }
    fn fname(j: usize) -> String {
        if j == usize::MAX { "f?".to_string() } else { format!("f{j}") }
    }

    /// ids (harness numbering) of the LOCAL file set of an element, sorted
    pub fn local_files(&self, e: &Element) -> Vec<usize> {
        let mut v: Vec<usize> = match e.file_membership() {
            Ok((true, set)) => set.iter().filter_map(|w| w.upgrade()).map(|f| self.fid(&f)).collect(),
            _ => vec![],
        };
        v.sort();
        v
    }

    fn node(&self, out: &mut String, e: &Element) {
        let par = match e.parent() {
            Ok(Some(p)) => self.eid(&p),
            Ok(None) => match e.model().ok().and_then(|m| self.models.iter().position(|x| *x == m)) {
                Some(k) => format!("m{k}"),
                None => "m?".to_string(),
            },
            Err(_) => "-".to_string(),
        };
        let _ = write!(out, "({},n{},p{},a[", self.eid(e), id16(e.element_name()), par);
        for (i, a) in e.attributes().enumerate() {
            if i > 0 {
                out.push(';');
            }
            let _ = write!(out, "{}={}", id16(a.attrname), fmt_val(&a.content));
        }
        out.push_str("],c");
        match e.comment() {
            Some(c) => out.push_str(&hx(&c)),
            None => out.push('-'),
        }
        out.push_str(",f[");
        out.push_str(&self.local_files(e).into_iter().map(Self::fname).collect::<Vec<_>>().join(","));
        out.push_str("],[");
        for (i, item) in e.content().enumerate() {
            if i > 0 {
                out.push(',');
            }
            match item {
                ElementContent::Element(s) => self.node(out, &s),
                ElementContent::CharacterData(cd) => {
                    out.push('T');
                    out.push_str(&fmt_val(&cd));
                }
            }
        }
        out.push_str("])");
    }

    pub fn dump_files(&self, k: usize) -> String {
        self.models[k].files().map(|f| format!("{}:{}:{}", Self::fname(self.fid(&f)), hx(&f.filename().to_string_lossy()), f.version() as u32)).collect::<Vec<_>>().join(",")
    }
    pub fn dump_tree(&self, k: usize) -> String {
        match self.root_id[k] {
            Some(r) => {
                let mut s = String::new();
                self.node(&mut s, &self.elems[r]);
                s
            }
            None => "-".to_string(),
        }
    }
    pub fn dump_index(&self, k: usize) -> String {
        let mut v: Vec<(String, String)> = self.models[k].verif_identifiables().into_iter().filter_map(|(p, w)| w.upgrade().map(|e| (p, self.eid(&e)))).collect();
        v.sort_by(|a, b| a.0.as_bytes().cmp(b.0.as_bytes()));
        v.into_iter().map(|(p, e)| format!("{}={}", hx(&p), e)).collect::<Vec<_>>().join(",")
    }
    pub fn dump_refs(&self, k: usize) -> String {
        let mut v: Vec<(String, Vec<WeakElement>)> = self.models[k].verif_reference_origins();
        v.sort_by(|a, b| a.0.as_bytes().cmp(b.0.as_bytes()));
        v.into_iter()
            .map(|(p, l)| {
                let mut ids: Vec<(usize, String)> = l.iter().filter_map(|w| w.upgrade()).map(|e| (self.ids.get(&e).copied().unwrap_or(usize::MAX), self.eid(&e))).collect();
                ids.sort();
                format!("{}={}", hx(&p), ids.into_iter().map(|x| x.1).collect::<Vec<_>>().join("+"))
            })
            .collect::<Vec<_>>()
            .join(",")
    }

    pub fn dump(&self) -> String {
        let mut s = String::from("ok ");
        for k in 0..self.models.len() {
            let _ = write!(s, "M{k}{{files=[{}]tree={}index=[{}]refs=[{}]}}", self.dump_files(k), self.dump_tree(k), self.dump_index(k), self.dump_refs(k));
        }
        s
    }
}

/// fresh World, every request executed in turn, no oracles (`run_replay` and the shrinker go through `Checker::step`,
/// which answers exactly like this)
#[allow(dead_code)]
pub fn replay(reqs: &[String]) -> Vec<String> {
    let mut w = World::new();
    reqs.iter().map(|r| w.exec(r)).collect()
}

// ------------------------------------------------------------------------------------------------
// 3. oracles (evaluated on the real library)
// ------------------------------------------------------------------------------------------------

#[derive(Clone, Copy, PartialEq, Eq, Debug)]
pub enum Kind {
    Basic,
    Sort,
    Copy,
    Files,
}
impl Kind {
    pub fn parse(s: &str) -> Option<Kind> {
        match s {
            "basic" => Some(Kind::Basic),
            "sort" => Some(Kind::Sort),
            "copy" => Some(Kind::Copy),
            "files" => Some(Kind::Files),
            _ => None,
        }
    }
    pub fn name(self) -> &'static str {
        match self {
            Kind::Basic => "basic",
            Kind::Sort => "sort",
            Kind::Copy => "copy",
            Kind::Files => "files",
        }
    }
}

#[derive(Clone, Debug)]
pub struct Failure {
    pub prop: &'static str,
    pub sig: Option<&'static str>,
    /// stable identification of the oracle that failed (used for de-duplication and shrinking)
    pub key: String,
    pub msg: String,
}
impl Failure {
    fn new(prop: &'static str, key: &str, msg: String) -> Failure {
        Failure { prop, sig: None, key: format!("{prop}:{key}"), msg }
    }
    fn known(prop: &'static str, sig: &'static str, msg: String) -> Failure {
        Failure { prop, sig: Some(sig), key: format!("{prop}:{sig}"), msg }
    }
    pub fn text(&self) -> String {
        match self.sig {
            Some(s) => format!("[{}][sig={}] {}", self.prop, s, self.msg),
            None => format!("[{}] {}", self.prop, self.msg),
        }
    }
}

const SIG_ALIEN_TYPE_LOAD: &str = "c10:copy-move-keeps-element-type-of-source-parent";
const SIG_PARTIAL_MERGE: &str = "c11:failed-load-partial-merge";
const SIG_COLLISION_C13: &str = "c13:copy-of-colliding-container";
const SIG_ALIEN_TYPE_C13: &str = "c13:copy-keeps-element-type-of-source-parent";
const SIG_NONTRANSITIVE: &str = "c14:comparison-not-transitive-missing-definition-ref";
const SIG_LONG_UNIQUE_NAME: &str = "c07:unique-name-suffix-exceeds-max-length";

/// serialized text of (a duplicate of `top`'s model, sorted at the place of `top`) and of (a duplicate in which every element below
/// that place was sorted on its own, deepest first, and then the place itself); third component: the subtree holds a
/// DEFINITION-REF without text (the situation of the known non-transitive comparison)
fn sort_metamorphic(top: &Element) -> Option<(String, String, bool)> {
    let model = top.model().ok()?;
    // index chain (among sub-elements) from the root to `top`
    let mut chain: Vec<usize> = vec![];
    let mut cur = top.clone();
    while let Ok(Some(p)) = cur.parent() {
        let i = p.sub_elements().position(|c| c == cur)?;
        chain.push(i);
        cur = p;
    }
    chain.reverse();
    let descend = |m: &AutosarModel| -> Option<Element> {
        let mut e = m.root_element();
        for i in &chain {
            e = e.sub_elements().nth(*i)?;
        }
        Some(e)
    };
    let d1 = model.duplicate().ok()?;
    let d2 = model.duplicate().ok()?;
    let (t1, t2) = (descend(&d1)?, descend(&d2)?);
    if t1.serialize() != t2.serialize() {
        return None; // duplicate() itself is not faithful here (judged by C13)
    }
    let defref = t1.elements_dfs().any(|(_, e)| e.element_name() == ElementName::DefinitionRef && e.character_data().is_none());
    let all: Vec<Element> = t2.elements_dfs().map(|(_, e)| e).collect();
    for e in all.iter().rev() {
        e.sort();
    }
    t1.sort();
    t2.sort();
    Some((t1.serialize(), t2.serialize(), defref))
}

/// statistics of a subtree that is about to be sorted (C14): (containers whose children include at least two siblings of the
/// same kind that `Element::cmp` can only order by CONTENT - no item name, no INDEX, no DEFINITION-REF, no DEST -, how many of
/// these have such a sibling with a reorderable container of at least two children somewhere inside it, how many of those
/// nested containers are not in sorted order at this moment).  These are the places where the order in which `sort`
/// descends (children first or parents first) is observable.
fn content_compared_stats(top: &Element) -> (u64, u64, u64) {
    let reorderable = |e: &Element| !e.element_type().is_ordered() && matches!(e.content_type(), ContentType::Elements);
    let keyless = |e: &Element| {
        e.item_name().is_none() && e.get_sub_element(ElementName::Index).is_none() && e.get_sub_element(ElementName::DefinitionRef).is_none() && e.attribute_value(AttributeName::Dest).is_none()
    };
    let unsorted = |d: &Element| -> bool {
        let t = d.element_type();
        let kids: Vec<(Vec<usize>, Element)> = d.sub_elements().filter_map(|c| t.find_sub_element(c.element_name(), u32::MAX).map(|(_, ix)| (ix, c))).collect();
        kids.windows(2).any(|w| w[0].0.cmp(&w[1].0).then_with(|| w[0].1.cmp(&w[1].1)) == std::cmp::Ordering::Greater)
    };
    let (mut cc, mut nested, mut nested_unsorted) = (0u64, 0u64, 0u64);
    for (_, c) in top.elements_dfs() {
        if !reorderable(&c) {
            continue;
        }
        let kids: Vec<Element> = c.sub_elements().filter(|k| keyless(k)).collect();
        let group: Vec<&Element> = kids.iter().filter(|k| kids.iter().filter(|o| o.element_name() == k.element_name()).count() >= 2).collect();
        if group.is_empty() {
            continue;
        }
        cc += 1;
        let inner: Vec<Element> = group.iter().flat_map(|k| k.elements_dfs().map(|x| x.1)).filter(|d| reorderable(d) && d.sub_elements().nth(1).is_some()).collect();
        if !inner.is_empty() {
            nested += 1;
            if inner.iter().any(|d| unsorted(d)) {
                nested_unsorted += 1;
            }
        }
    }
    (cc, nested, nested_unsorted)
}

fn first_difference(a: &str, b: &str) -> (String, String) {
    for (x, y) in a.lines().zip(b.lines()) {
        if x != y {
            return (x.trim().to_string(), y.trim().to_string());
        }
    }
    (String::from("(length)"), String::from("(length)"))
}

const SIG_COLLISION: &str = "c04:container-move-copy-collision";
const SIG_DUP_DOC: &str = "c04:document-with-duplicate-paths-accepted";
const SIG_EMPTY_SN_C04: &str = "c04:empty-short-name-element-not-indexed";
const SIG_LOWEST_VERSION: &str = "c07:content-below-mixed-version-file-set-checked-against-lowest-version-only";
const SIG_SHARED_SUBTREE: &str = "c03:merge-into-twin-siblings-shares-subtree";
const SIG_ROOT_ONLY_FILE: &str = "c10:remove-file-that-alone-holds-the-root";
const SIG_SN_NOT_FIRST: &str = "c04:short-name-not-first-accepted";
const SIG_DUP_MIXED: &str = "c13:duplicate-of-model-with-files-of-different-versions";
const SIG_ANCESTOR: &str = "c12:move-to-ancestor-parent-locked";
const SIG_MIXED_C03: &str = "c03:mixed-set-cdata-drops-children";
const SIG_MIXED_C04: &str = "c04:mixed-set-cdata-drops-children";
const SIG_MIXED_C05: &str = "c05:mixed-set-cdata-drops-children";
const SIG_LATE_SN: &str = "c04:short-name-added-later-not-indexed";
const SIG_BEFORE_SN: &str = "c04:content-before-short-name-in-mixed-named-element";
// families found by this scenario (NOT in the task's list; proposed signatures, see the report)
const SIG_DANGLING_RENAME: &str = "c06:rename-rewrites-dangling-prefix";
const SIG_DUP_ROOT: &str = "c13:duplicate-drops-root-attributes-and-comment";
const SIG_XMLNS_LOAD: &str = "c10:edited-xmlns-breaks-load";
const SIG_LAST_FILE: &str = "c03:remove-last-file-keeps-children-attached";
const SIG_SN_SPLIT: &str = "c10:short-name-restricted-file-set";
/// (C03 signature, C10 signature) of the three file-set families
const SIG_STALE_FILE: (&str, &str) = ("c03:add-to-removed-file", "c10:add-to-removed-file");
const SIG_ROOT_UNFILED: (&str, &str) = ("c03:root-removed-from-file", "c10:root-removed-from-file");
const SIG_SPLIT_MOVE: (&str, &str) = ("c03:move-keeps-descendant-file-sets", "c10:move-keeps-descendant-file-sets");

/// one model's tree as the harness sees it through `sub_elements()`: (depth, element, index of the parent entry)
struct MSnap {
    k: usize,
    pre: Vec<(usize, Element, Option<usize>)>,
}

struct RefPre {
    r: Element,
    text: Option<String>,
    /// element the text designated by path (ignoring DEST)
    by_path: Option<Element>,
    /// result of get_reference_target()
    resolved: Option<Element>,
}

struct ElemShape {
    kids: Vec<usize>,
    texts: Vec<String>,
    attrs: Vec<String>,
    comment: Option<String>,
    /// the child elements are in specification order (index paths in the element's type, all-version lookup, never decrease)
    in_spec_order: bool,
}

#[derive(PartialEq, Clone, Copy)]
enum Side {
    Src,
    Cp,
}

pub struct Checker {
    pub w: World,
    prop: Option<String>,
    pub kind: Kind,
    last_dump: String,
    reported: HashSet<String>,
    stop_c456: bool,
    dropped: HashSet<usize>,
    /// per model: ids reachable from the root in document order
    pub live: Vec<Vec<usize>>,
    pub reach: HashSet<usize>,
    prev_mut: Option<(String, bool)>,
    pairs: Vec<(Element, Element)>,
    dups: Vec<(AutosarModel, Vec<(ArxmlFile, String)>)>,
    /// former content of a root whose last file was removed (children keep their parent pointer)
    emptied: HashSet<usize>,
    /// a file-set trigger of a known family happened earlier in this history: later C10 / file-scoped C03 failures belong to it
    files_sticky: Option<(&'static str, &'static str)>,
    /// a copy / move brought an element whose type belongs to another parent (known finding c07:copy-move-keeps-element-type-of-source-parent)
    alien_type: bool,
    /// how often the kind-specific oracles were actually evaluated (statistics)
    pub counts: BTreeMap<&'static str, u64>,
    /// a SHORT-NAME was created with `create_sub_element` in an element that existed without one (its type has no name in the
    /// version it was created in): known finding c04:short-name-added-later-not-indexed; the path index stays behind from here on
    late_short_name: bool,
    /// content was inserted at position 0 of an identifiable element with MIXED content (in front of its SHORT-NAME): known
    /// finding c04:content-before-short-name-in-mixed-named-element
    before_short_name: bool,
}

fn walk(e: &Element, depth: usize, parent: Option<usize>, out: &mut Vec<(usize, Element, Option<usize>)>) {
    out.push((depth, e.clone(), parent));
    let me = out.len() - 1;
    if depth > 200 {
        return;
    }
    for s in e.sub_elements() {
        walk(&s, depth + 1, Some(me), out);
    }
}

fn own_item_name(e: &Element) -> Option<String> {
    let first = e.sub_elements().next()?;
    if first.element_name() != ElementName::ShortName {
        return None;
    }
    match first.character_data() {
        Some(CharacterData::String(s)) => Some(s),
        _ => None,
    }
}

fn ref_text(e: &Element) -> Option<String> {
    match e.character_data() {
        Some(CharacterData::String(s)) => Some(s),
        _ => None,
    }
}

fn is_inside(e: &Element, top: &Element) -> bool {
    let mut cur = e.clone();
    for _ in 0..300 {
        if cur == *top {
            return true;
        }
        match cur.parent() {
            Ok(Some(p)) => cur = p,
            _ => return false,
        }
    }
    false
}

/// `ArxmlFile::serialize()` rewrites the xsi:schemaLocation attribute of the root element to the file's version as a side
/// effect; the oracles must not disturb the dump, so the attribute is put back afterwards
fn file_ser(f: &ArxmlFile) -> Result<String, AutosarDataError> {
    let root = f.model().map(|m| m.root_element());
    let saved = root.as_ref().ok().and_then(|r| r.attribute_value(AttributeName::xsiSchemalocation));
    let s = f.serialize();
    if let (Ok(r), Some(v)) = (&root, saved) {
        if r.attribute_value(AttributeName::xsiSchemalocation).as_ref() != Some(&v) {
            let _ = r.set_attribute(AttributeName::xsiSchemalocation, v);
        }
    }
    s
}

/// `<X a="b">` + whitespace + `</X>` (an element all of whose children live in other files) is the same content as `<X a="b"/>`
fn norm_empty(t: &str) -> String {
    let mut s = t.to_string();
    loop {
        let mut changed = false;
        let mut from = 0;
        while let Some(off) = s[from..].find("</") {
            let close = from + off;
            let Some(gt) = s[close..].find('>') else { break };
            let name = s[close + 2..close + gt].to_string();
            let before = s[..close].trim_end();
            if before.len() < close && before.ends_with('>') && !before.ends_with("/>") {
                if let Some(lt) = before.rfind('<') {
                    let tag = &before[lt + 1..before.len() - 1];
                    if !tag.starts_with('/') && !tag.starts_with('!') && tag.split(' ').next() == Some(name.as_str()) {
                        let new = format!("{}/>{}", &before[..before.len() - 1], &s[close + gt + 1..]);
                        from = before.len();
                        s = new;
                        changed = true;
                        continue;
                    }
                }
            }
            from = close + 2;
        }
        if !changed {
            return s;
        }
    }
}

fn file_ser_norm(f: &ArxmlFile) -> Option<String> {
    file_ser(f).ok().map(|t| norm_empty(&t))
}

fn quiet<T>(f: impl FnOnce() -> T) -> Option<T> {
    catch_unwind(AssertUnwindSafe(f)).ok()
}

impl Checker {
    pub fn new(prop: Option<String>, kind: Kind) -> Checker {
        Checker {
            w: World::new(),
            prop,
            kind,
            last_dump: "ok ".to_string(),
            reported: HashSet::new(),
            stop_c456: false,
            dropped: HashSet::new(),
            live: vec![],
            reach: HashSet::new(),
            prev_mut: None,
            pairs: vec![],
            dups: vec![],
            emptied: HashSet::new(),
            files_sticky: None,
            alien_type: false,
            counts: BTreeMap::new(),
            late_short_name: false,
            before_short_name: false,
        }
    }

    /// the root element carries a comment or attributes other than the three default ones
    fn root_decorated(&self, k: usize, xmlns_only: bool) -> bool {
        let root = self.w.models[k].root_element();
        let val = |a: AttributeName| root.attribute_value(a).and_then(|v| v.string_value());
        let xmlns_bad = val(AttributeName::xmlns).as_deref() != Some("http://autosar.org/schema/r4.0")
            || val(AttributeName::xmlnsXsi).as_deref() != Some("http://www.w3.org/2001/XMLSchema-instance")
            || !val(AttributeName::xsiSchemalocation).is_some_and(|v| v.starts_with("http://autosar.org/schema/r4.0 AUTOSAR_") && v.ends_with(".xsd"));
        if xmlns_only { xmlns_bad } else { xmlns_bad || root.comment().is_some() || root.attributes().count() != 3 }
    }

    fn on(&self, p: &str) -> bool {
        self.prop.as_deref().map_or(true, |x| x == p)
    }

    fn id(&self, e: &Element) -> usize {
        self.w.ids.get(e).copied().unwrap_or(usize::MAX)
    }
    fn nm(&self, e: &Element) -> String {
        format!("{}<{}>", self.w.eid(e), e.element_name())
    }

    fn traverse(&self) -> Vec<MSnap> {
        let mut v = vec![];
        for k in 0..self.w.models.len() {
            if let Some(r) = self.w.root_id[k] {
                let mut pre = vec![];
                walk(&self.w.elems[r], 0, None, &mut pre);
                v.push(MSnap { k, pre });
            }
        }
        v
    }

    fn refresh_live(&mut self, snaps: &[MSnap]) {
        self.live = vec![vec![]; self.w.models.len()];
        self.reach.clear();
        for s in snaps {
            for (_, e, _) in &s.pre {
                let i = self.id(e);
                self.live[s.k].push(i);
                self.reach.insert(i);
            }
        }
    }

    pub fn stale_ids(&self) -> Vec<usize> {
        (0..self.w.elems.len()).filter(|i| !self.reach.contains(i)).collect()
    }

    /// drops failures whose key was already reported in this history
    fn filter(&mut self, v: Vec<Failure>) -> Vec<Failure> {
        let mut out = vec![];
        for f in v {
            if self.reported.insert(f.key.clone()) {
                out.push(f);
            }
        }
        out
    }

    // ---- C03 ----
    fn c03_tree(&self, snaps: &[MSnap], files_sig: Option<(&'static str, &'static str)>, out: &mut Vec<Failure>) {
        for s in snaps {
            let m = &self.w.models[s.k];
            let pre = &s.pre;
            // one element object listed by two parents: the model is no tree any more
            let mut first_at: HashMap<Element, usize> = HashMap::new();
            let mut shared: Option<(usize, usize)> = None;
            for (i, (_, e, _)) in pre.iter().enumerate() {
                if let Some(j) = first_at.get(e) {
                    shared = Some((*j, i));
                    break;
                }
                first_at.insert(e.clone(), i);
            }
            if let Some((a, b)) = shared {
                let (pa, pb) = (pre[a].2.map(|x| pre[x].1.clone()), pre[b].2.map(|x| pre[x].1.clone()));
                let msg = format!("{} is a sub-element of {} AND of {}", self.nm(&pre[a].1), pa.as_ref().map_or("-".to_string(), |x| self.nm(x)), pb.as_ref().map_or("-".to_string(), |x| self.nm(x)));
                // known: the two parents are siblings of one kind with one item name (the state a document with duplicate paths leaves,
                // c04:document-with-duplicate-paths-accepted); a merging load pairs both with the same element of the new file
                let twins = match (&pa, &pb) {
                    (Some(x), Some(y)) => x != y && x.element_name() == y.element_name() && x.is_identifiable() && x.item_name() == y.item_name() && x.parent().ok().flatten() == y.parent().ok().flatten(),
                    _ => false,
                };
                if twins {
                    out.push(Failure::known("C03", SIG_SHARED_SUBTREE, msg));
                } else {
                    out.push(Failure::new("C03", "shared-element", msg));
                }
                continue;
            }
            for (i, (_, e, pi)) in pre.iter().enumerate() {
                match pi {
                    None => {
                        if !matches!(e.parent(), Ok(None)) {
                            out.push(Failure::new("C03", "parent", format!("root {}: parent() is not Ok(None)", self.nm(e))));
                        }
                        if e.position().is_some() {
                            out.push(Failure::new("C03", "position", format!("root {}: position() is Some", self.nm(e))));
                        }
                    }
                    Some(pi) => {
                        let p = &pre[*pi].1;
                        match e.parent() {
                            Ok(Some(q)) if q == *p => {}
                            other => out.push(Failure::new("C03", "parent", format!("{} is listed by {} but parent() = {:?}", self.nm(e), self.nm(p), other.map(|o| o.map(|x| self.w.eid(&x))).map_err(|e| e.to_string())))),
                        }
                        let want = p.content().position(|c| matches!(&c, ElementContent::Element(x) if x == e));
                        let got = e.position();
                        if got != want {
                            out.push(Failure::new("C03", "position", format!("{}: position() = {:?} but it is content item {:?} of {}", self.nm(e), got, want, self.nm(p))));
                        }
                    }
                }
                match e.model() {
                    Ok(mm) if mm == *m => {}
                    other => out.push(Failure::new("C03", "model", format!("{}: model() = {} instead of m{}", self.nm(e), if other.is_ok() { "another model".to_string() } else { "Err".to_string() }, s.k))),
                }
                // element-scoped dfs = the subtree
                let d0 = pre[i].0;
                let mut j = i + 1;
                while j < pre.len() && pre[j].0 > d0 {
                    j += 1;
                }
                let got: Vec<(usize, Element)> = e.elements_dfs().collect();
                let same = got.len() == j - i && got.iter().zip(&pre[i..j]).all(|((gd, ge), (d, x, _))| *gd + d0 == *d && ge == x);
                if !same {
                    out.push(Failure::new("C03", "dfs-elem", format!("{}: elements_dfs() yields {} entries, the subtree has {} (or order/depth differ)", self.nm(e), got.len(), j - i)));
                }
            }
            let all: Vec<(usize, Element)> = m.elements_dfs().collect();
            if !(all.len() == pre.len() && all.iter().zip(pre.iter()).all(|((gd, ge), (d, x, _))| gd == d && ge == x)) {
                out.push(Failure::new("C03", "dfs-model", format!("m{}: elements_dfs() yields {} entries, the tree has {} (or order/depth differ)", s.k, all.len(), pre.len())));
            }
            for d in 1..=3usize {
                let got: Vec<(usize, Element)> = m.elements_dfs_with_max_depth(d).collect();
                let want: Vec<&(usize, Element, Option<usize>)> = pre.iter().filter(|x| x.0 <= d).collect();
                if !(got.len() == want.len() && got.iter().zip(want.iter()).all(|((gd, ge), (wd, we, _))| gd == wd && ge == we)) {
                    out.push(Failure::new("C03", "dfs-depth", format!("m{}: elements_dfs_with_max_depth({d}) yields {} entries, the truncated preorder has {}", s.k, got.len(), want.len())));
                }
            }
            for f in m.files() {
                let wf = f.downgrade();
                let got: Vec<(usize, Element)> = f.elements_dfs().collect();
                let want: Vec<&(usize, Element, Option<usize>)> = pre.iter().filter(|x| x.1.file_membership().map(|(_, s)| s.contains(&wf)).unwrap_or(false)).collect();
                if !(got.len() == want.len() && got.iter().zip(want.iter()).all(|((gd, ge), (wd, we, _))| gd == wd && ge == we)) {
                    let msg = format!("m{} file f{}: ArxmlFile::elements_dfs() yields {} entries, {} elements have the file in their effective file set", s.k, self.w.files.iter().position(|x| *x == f).unwrap_or(usize::MAX), got.len(), want.len());
                    out.push(match files_sig {
                        Some((c03, _)) => Failure::known("C03", c03, msg),
                        None => Failure::new("C03", "dfs-file", msg),
                    });
                }
                // file-scoped with depth limit = the same filtered preorder, truncated (an element at the limit that is not
                // in the file must not hide the siblings that follow it)
                for d in 1..=4usize {
                    let got: Vec<(usize, Element)> = f.elements_dfs_with_max_depth(d).collect();
                    let wantd: Vec<&&(usize, Element, Option<usize>)> = want.iter().filter(|x| x.0 <= d).collect();
                    if !(got.len() == wantd.len() && got.iter().zip(wantd.iter()).all(|((gd, ge), (wd, we, _))| gd == wd && ge == we)) {
                        let msg = format!("m{} file f{}: ArxmlFile::elements_dfs_with_max_depth({d}) yields {} entries, the truncated file view has {}", s.k, self.w.files.iter().position(|x| *x == f).unwrap_or(usize::MAX), got.len(), wantd.len());
                        out.push(match files_sig {
                            Some((c03, _)) => Failure::known("C03", c03, msg),
                            None => Failure::new("C03", "dfs-file-depth", msg),
                        });
                    }
                }
            }
            // element-scoped with depth limit, for the first elements of the model
            for (i, (d0, e, _)) in pre.iter().enumerate().take(12) {
                let mut j = i + 1;
                while j < pre.len() && pre[j].0 > *d0 {
                    j += 1;
                }
                for d in 1..=3usize {
                    let got: Vec<(usize, Element)> = e.elements_dfs_with_max_depth(d).collect();
                    let want: Vec<&(usize, Element, Option<usize>)> = pre[i..j].iter().filter(|x| x.0 - d0 <= d).collect();
                    if !(got.len() == want.len() && got.iter().zip(want.iter()).all(|((gd, ge), (wd, we, _))| *gd + d0 == *wd && ge == we)) {
                        out.push(Failure::new("C03", "dfs-elem-depth", format!("{}: elements_dfs_with_max_depth({d}) yields {} entries, the truncated subtree has {}", self.nm(e), got.len(), want.len())));
                    }
                }
            }
        }
    }

    fn c03_stale(&mut self, out: &mut Vec<Failure>) {
        let stale = self.stale_ids();
        if stale.is_empty() {
            return;
        }
        let victim = self.live.iter().flat_map(|l| l.iter()).nth(1).map(|i| self.w.elems[*i].clone());
        for i in stale {
            let e = self.w.elems[i].clone();
            let mut bad: Vec<&str> = vec![];
            if quiet(|| e.parent().is_ok()).unwrap_or(true) {
                bad.push("parent");
            }
            if quiet(|| e.model().is_ok()).unwrap_or(true) {
                bad.push("model");
            }
            if quiet(|| e.path().is_ok()).unwrap_or(true) {
                bad.push("path");
            }
            if quiet(|| e.file_membership().is_ok()).unwrap_or(true) {
                bad.push("file_membership");
            }
            // children dropped by `cdata` on a MIXED element keep their parent pointer (known finding): a successful rename
            // through such a handle would rewrite the live index, so only the read-only calls are probed for them
            let read_only = self.dropped.contains(&i) || self.emptied.contains(&i);
            if !read_only && quiet(|| e.create_sub_element(ElementName::Category).is_ok()).unwrap_or(true) {
                bad.push("create_sub_element");
            }
            if !read_only && quiet(|| e.set_item_name("zz").is_ok()).unwrap_or(true) {
                bad.push("set_item_name");
            }
            if let Some(v) = victim.as_ref().filter(|_| !read_only) {
                if quiet(|| e.remove_sub_element(v.clone()).is_ok()).unwrap_or(true) {
                    bad.push("remove_sub_element");
                }
            }
            if !bad.is_empty() {
                let msg = format!("stale handle {} (not reachable from any root): {} returned Ok (or panicked)", self.nm(&e), bad.join(", "));
                if self.dropped.contains(&i) {
                    out.push(Failure::known("C03", SIG_MIXED_C03, msg));
                } else if self.emptied.contains(&i) {
                    out.push(Failure::known("C03", SIG_LAST_FILE, msg));
                } else {
                    out.push(Failure::new("C03", &format!("stale:{}", bad[0]), msg));
                }
            }
        }
    }

    // ---- C04 ----
    fn c04(&self, snaps: &[MSnap], out: &mut Vec<Failure>) {
        for s in snaps {
            let m = &self.w.models[s.k];
            let mut tree: Vec<(String, usize)> = vec![];
            let mut names: Vec<Option<String>> = vec![];
            for (d, e, _) in &s.pre {
                names.truncate(*d);
                let ident = e.is_identifiable();
                names.push(if ident { own_item_name(e) } else { None });
                if ident {
                    match e.path() {
                        Ok(p) => {
                            let want = format!("/{}", names.iter().flatten().cloned().collect::<Vec<_>>().join("/"));
                            if p != want {
                                out.push(Failure::new("C04", "path-text", format!("{}: path() = {p:?} but the item names of its identifiable ancestors-or-self give {want:?}", self.nm(e))));
                            }
                            tree.push((p, self.id(e)));
                        }
                        Err(err) => out.push(Failure::new("C04", "path-err", format!("{} is identifiable and reachable but path() fails: {err}", self.nm(e)))),
                    }
                }
            }
            tree.sort();
            for w2 in tree.windows(2) {
                if w2[0].0 == w2[1].0 {
                    out.push(Failure::new("C04", "dup-path", format!("m{}: e{} and e{} are both reachable and both have the path {:?}", s.k, w2[0].1, w2[1].1, w2[0].0)));
                    break;
                }
            }
            let mut idx: Vec<(String, usize)> = m.verif_identifiables().into_iter().filter_map(|(p, w)| w.upgrade().map(|e| (p, self.id(&e)))).collect();
            idx.sort();
            if idx != tree {
                let only_idx: Vec<String> = idx.iter().filter(|x| !tree.contains(x)).take(3).map(|(p, i)| format!("{p}=e{i}")).collect();
                let only_tree: Vec<String> = tree.iter().filter(|x| !idx.contains(x)).take(3).map(|(p, i)| format!("{p}=e{i}")).collect();
                out.push(Failure::new("C04", "index-vs-tree", format!("m{}: path index differs from the tree: only in index [{}], only in tree [{}]", s.k, only_idx.join(" "), only_tree.join(" "))));
            }
            let mut it: Vec<(String, usize)> = m.identifiable_elements().filter_map(|(p, w)| w.upgrade().map(|e| (p, self.id(&e)))).collect();
            it.sort();
            if it != tree {
                out.push(Failure::new("C04", "identifiables-iter", format!("m{}: identifiable_elements() lists {} live entries, the tree has {} identifiable elements (or they differ)", s.k, it.len(), tree.len())));
            }
            for (p, i) in &tree {
                match m.get_element_by_path(p) {
                    Some(e) if self.id(&e) == *i => {}
                    other => {
                        out.push(Failure::new("C04", "lookup", format!("m{}: get_element_by_path({p:?}) = {} but e{i} has that path", s.k, other.map(|e| self.w.eid(&e)).unwrap_or("None".to_string()))));
                        break;
                    }
                }
            }
        }
    }

    // ---- C05 ----
    fn c05(&self, snaps: &[MSnap], out: &mut Vec<Failure>) {
        for s in snaps {
            let m = &self.w.models[s.k];
            let mut by_text: BTreeMap<String, Vec<usize>> = BTreeMap::new();
            let mut broken_want: Vec<usize> = vec![];
            for (_, e, _) in &s.pre {
                if e.is_reference() {
                    if let Some(t) = ref_text(e) {
                        by_text.entry(t).or_default().push(self.id(e));
                        if e.get_reference_target().is_err() {
                            broken_want.push(self.id(e));
                        }
                    }
                }
            }
            for v in by_text.values_mut() {
                v.sort();
            }
            let origins = m.verif_reference_origins();
            let mut seen: HashSet<String> = HashSet::new();
            for (key, l) in &origins {
                seen.insert(key.clone());
                let mut got: Vec<usize> = l.iter().filter_map(|w| w.upgrade()).map(|e| self.id(&e)).filter(|i| self.reach.contains(i)).collect();
                got.sort();
                let want = by_text.get(key).cloned().unwrap_or_default();
                if got != want {
                    out.push(Failure::new("C05", "origins", format!("m{}: referrers recorded for {key:?} (live, in the model) = {:?}, references in the tree with that text = {:?}", s.k, got, want)));
                    break;
                }
            }
            for (t, l) in &by_text {
                if !seen.contains(t) {
                    out.push(Failure::new("C05", "missing-key", format!("m{}: references {:?} have the text {t:?} but no referrer list exists for it", s.k, l)));
                    break;
                }
            }
            let mut got: Vec<usize> = m.check_references().iter().filter_map(|w| w.upgrade()).map(|e| self.id(&e)).filter(|i| self.reach.contains(i)).collect();
            got.sort();
            broken_want.sort();
            if got != broken_want {
                out.push(Failure::new("C05", "checkrefs", format!("m{}: check_references() reports {:?}; references whose get_reference_target() fails: {:?}", s.k, got, broken_want)));
            }
        }
    }

    fn all_refs_pre(&self) -> Vec<RefPre> {
        let mut v = vec![];
        for l in &self.live {
            for i in l {
                let e = &self.w.elems[*i];
                if e.is_reference() {
                    let text = ref_text(e);
                    let by_path = match (&text, e.model()) {
                        (Some(t), Ok(m)) => m.get_element_by_path(t),
                        _ => None,
                    };
                    v.push(RefPre { r: e.clone(), text, by_path, resolved: e.get_reference_target().ok() });
                }
            }
        }
        v
    }

    // ---- C06 ----
    fn c06(&self, req: &str, refs: &[RefPre], subj_sub: &HashSet<Element>, cross_model: bool, renamed_from: Option<&str>, out: &mut Vec<Failure>) {
        for rp in refs {
            if !self.reach.contains(&self.id(&rp.r)) {
                continue;
            }
            let now = ref_text(&rp.r);
            let follows = rp.by_path.as_ref().is_some_and(|t| subj_sub.contains(t)) && (!cross_model || subj_sub.contains(&rp.r));
            if follows {
                let t = rp.by_path.as_ref().unwrap();
                let by_path_now = match (&now, rp.r.model()) {
                    (Some(x), Ok(m)) => m.get_element_by_path(x),
                    _ => None,
                };
                if by_path_now.as_ref() != Some(t) {
                    out.push(Failure::new("C06", "target-lost", format!("after `{req}`: reference {} had the text {:?} designating {}, now has {:?} designating {}", self.nm(&rp.r), rp.text, self.nm(t), now, by_path_now.map(|e| self.w.eid(&e)).unwrap_or("nothing".to_string()))));
                    return;
                }
                if let Some(res) = &rp.resolved {
                    if rp.r.get_reference_target().ok().as_ref() != Some(res) {
                        out.push(Failure::new("C06", "target-lost", format!("after `{req}`: reference {} resolved to {} before, get_reference_target() no longer returns it", self.nm(&rp.r), self.nm(res))));
                        return;
                    }
                }
            } else if now != rp.text {
                let dangling_below = rp.by_path.is_none() && renamed_from.is_some_and(|p| rp.text.as_ref().is_some_and(|t| t.starts_with(&format!("{p}/"))));
                let mk = if dangling_below { |m: String| Failure::known("C06", SIG_DANGLING_RENAME, m) } else { |m: String| Failure::new("C06", "text-changed", m) };
                out.push(mk(format!("after `{req}`: reference {} did not designate the renamed/moved element or anything below it, but its text changed from {:?} to {:?}", self.nm(&rp.r), rp.text, now)));
                return;
            }
        }
    }
}

struct SortPre {
    shapes: HashMap<usize, ElemShape>,
    index: Vec<String>,
    refs: Vec<String>,
}

struct RmFilePre {
    k: usize,
    last_file: bool,
    doomed: Vec<usize>,
    before: Vec<usize>,
    others: Vec<(ArxmlFile, Option<String>)>,
    root_only: bool,
}

impl Checker {
    fn shape(&self, e: &Element) -> ElemShape {
        let mut kids: Vec<usize> = e.sub_elements().map(|s| self.id(&s)).collect();
        kids.sort();
        let et = e.element_type();
        let paths: Vec<Vec<usize>> = e.sub_elements().filter_map(|c| et.find_sub_element(c.element_name(), u32::MAX).map(|x| x.1)).collect();
        let in_spec_order = paths.len() == e.sub_elements().count() && paths.windows(2).all(|w| w[0] <= w[1]);
        ElemShape {
            in_spec_order,
            kids,
            texts: e.content().filter_map(|c| if let ElementContent::CharacterData(cd) = c { Some(fmt_val(&cd)) } else { None }).collect(),
            attrs: e.attributes().map(|a| format!("{}={}", id16(a.attrname), fmt_val(&a.content))).collect(),
            comment: e.comment(),
        }
    }

    fn eff_files(&self, e: &Element) -> Option<Vec<usize>> {
        let (_, set) = e.file_membership().ok()?;
        let mut v: Vec<usize> = set.iter().filter_map(|w| w.upgrade()).map(|f| self.w.files.iter().position(|x| *x == f).unwrap_or(usize::MAX)).collect();
        v.sort();
        Some(v)
    }

    // ---- C10 ----
    fn c10(&self, snaps: &[MSnap], out: &mut Vec<Failure>) {
        for s in snaps {
            let m = &self.w.models[s.k];
            let mfiles: Vec<usize> = m.files().map(|f| self.w.files.iter().position(|x| *x == f).unwrap_or(usize::MAX)).collect();
            if mfiles.is_empty() {
                continue;
            }
            let mut effs: Vec<Vec<usize>> = vec![];
            for (_, e, pi) in &s.pre {
                let ef = self.eff_files(e).unwrap_or_default();
                if ef.is_empty() {
                    out.push(Failure::new("C10", "in-no-file", format!("{} is part of m{} but its effective file set is empty / unavailable", self.nm(e), s.k)));
                }
                if !ef.iter().all(|f| mfiles.contains(f)) {
                    out.push(Failure::new("C10", "foreign-file", format!("{}: effective file set {:?} is not a subset of the model's files {:?}", self.nm(e), ef, mfiles)));
                }
                if let Some(pi) = pi {
                    let loc = self.w.local_files(e);
                    if !loc.iter().all(|f| effs[*pi].contains(f)) {
                        out.push(Failure::new("C10", "local-not-in-parent", format!("{}: local file set {:?} is not a subset of its parent's effective set {:?}", self.nm(e), loc, effs[*pi])));
                    }
                }
                effs.push(ef);
            }
            for f in m.files() {
                let j = self.w.files.iter().position(|x| *x == f).unwrap_or(usize::MAX);
                match file_ser(&f) {
                    Ok(t) => {
                        let fresh = AutosarModel::new();
                        match quiet(|| fresh.load_buffer(t.as_bytes(), "chk.arxml", false)) {
                            Some(Ok(_)) => {
                                let got: Vec<(usize, ElementName)> = fresh.elements_dfs().map(|(d, e)| (d, e.element_name())).collect();
                                let want: Vec<(usize, ElementName)> = f.elements_dfs().map(|(d, e)| (d, e.element_name())).collect();
                                if got != want {
                                    out.push(Failure::new("C10", "file-content", format!("file f{j}: its text loads into {} elements, {} elements are attributed to the file (or names/depths differ)", got.len(), want.len())));
                                }
                            }
                            Some(Err(e)) if self.root_decorated(s.k, true) => out.push(Failure::known("C10", SIG_XMLNS_LOAD, format!("file f{j}: after the xmlns / xmlns:xsi / xsi:schemaLocation attribute of <AUTOSAR> was edited, the serialize() output does not load: {e}"))),
                            Some(Err(e)) if self.alien_type => out.push(Failure::known("C10", SIG_ALIEN_TYPE_LOAD, format!("file f{j}: after a copy / move that brought an element whose type belongs to another parent, the serialize() output does not load: {e}"))),
                            Some(Err(e)) => out.push(Failure::new("C10", "file-load", format!("file f{j}: serialize() output does not load on its own: {e}"))),
                            None => out.push(Failure::new("C10", "file-load", format!("file f{j}: loading the serialize() output panics"))),
                        }
                    }
                    // documented: a file that does not even contain the root element cannot be serialized
                    Err(AutosarDataError::EmptyFile) if !self.eff_files(&s.pre[0].1).unwrap_or_default().contains(&j) => {}
                    Err(e) => out.push(Failure::new("C10", "file-serialize", format!("file f{j} of m{}: serialize() fails: {e}", s.k))),
                }
            }
        }
    }

    fn rmfile_pre(&self, words: &[&str]) -> Option<RmFilePre> {
        let (k, m) = self.w.h_model(words.get(1)?)?;
        let f = self.w.h_file(words.get(2)?)?;
        if !m.files().any(|x| x == f) {
            return None;
        }
        let j = self.w.files.iter().position(|x| *x == f)?;
        let root = self.w.root_id[k]?;
        let before = self.live.get(k)?.clone();
        let doomed: Vec<usize> = before.iter().copied().filter(|i| *i != root && self.eff_files(&self.w.elems[*i]) == Some(vec![j])).collect();
        let others = m.files().filter(|x| *x != f).map(|x| (x.clone(), file_ser_norm(&x))).collect::<Vec<_>>();
        // the root element is in this file only although the model has other files (it was taken out of them with remove_from_file)
        let root_only = !others.is_empty() && self.eff_files(&self.w.elems[root]) == Some(vec![j]);
        Some(RmFilePre { k, last_file: others.is_empty(), doomed, before, others, root_only })
    }

    fn rmfile_post(&self, req: &str, p: &RmFilePre, out: &mut Vec<Failure>) {
        let now: HashSet<usize> = self.live[p.k].iter().copied().collect();
        let gone: Vec<usize> = p.before.iter().copied().filter(|i| !now.contains(i)).collect();
        let want: Vec<usize> = if p.last_file { p.before.iter().copied().filter(|i| Some(*i) != self.w.root_id[p.k]).collect() } else { p.doomed.clone() };
        let mut sn_only = false;
        if gone != want {
            let extra: Vec<usize> = gone.iter().copied().filter(|i| !want.contains(i)).take(5).collect();
            let missing: Vec<usize> = want.iter().copied().filter(|i| !gone.contains(i)).take(5).collect();
            sn_only = extra.is_empty() && want.iter().filter(|i| !gone.contains(i)).all(|i| self.w.elems[*i].element_name() == ElementName::ShortName);
            let msg = format!("after `{req}`: removed although also in another file: {:?}; kept although only in the removed file: {:?}", extra, missing);
            if p.root_only && extra.is_empty() {
                out.push(Failure::known("C10", SIG_ROOT_ONLY_FILE, format!("{msg} (the removed file was the only one that held the root element; the other files of the model do not contain it)")));
                return;
            }
            out.push(if sn_only { Failure::known("C10", SIG_SN_SPLIT, format!("{msg} (SHORT-NAME elements with a file set of their own cannot be removed)")) } else { Failure::new("C10", "rmfile-elements", msg) });
        }
        for (f, ser) in &p.others {
            if file_ser_norm(f) != *ser && !sn_only {
                out.push(Failure::new("C10", "rmfile-other-file", format!("after `{req}`: the text of file f{} changed", self.w.files.iter().position(|x| x == f).unwrap_or(usize::MAX))));
            }
        }
    }

    // ---- C13 ----
    fn side_of(&self, handles: &[Element], src: &Element, cp: &Element) -> Option<Side> {
        if handles.is_empty() || is_inside(cp, src) || is_inside(src, cp) {
            return None;
        }
        if handles.iter().all(|h| is_inside(h, cp)) {
            Some(Side::Cp)
        } else if handles.iter().all(|h| is_inside(h, src)) {
            Some(Side::Src)
        } else {
            None
        }
    }

    fn c13_copy_done(&mut self, req: &str, src: &Element, src_ser: &str, ans: &str, out: &mut Vec<Failure>) {
        let Some(first) = ans.split(' ').nth(1).and_then(|w| handle(w, 'e')) else { return };
        let cp = self.w.elems[first].clone();
        if src.serialize() != src_ser {
            out.push(Failure::new("C13", "copy-changed-source", format!("`{req}`: the serialization of the source changed")));
        }
        let same_version = match (cp.min_version(), src.min_version()) {
            (Ok(a), Ok(b)) => a == b,
            _ => false,
        };
        if same_version {
            let mut got = cp.serialize();
            if let (Some(cn), Some(sn)) = (cp.item_name(), src.item_name()) {
                let ok_suffix = cn == sn || cn.strip_prefix(&format!("{sn}_")).is_some_and(|d| !d.is_empty() && d.bytes().all(|b| b.is_ascii_digit()));
                if !ok_suffix {
                    out.push(Failure::new("C13", "copy-name", format!("`{req}`: the copy of {sn:?} is named {cn:?}")));
                }
                got = got.replacen(&format!(">{cn}</SHORT-NAME>"), &format!(">{sn}</SHORT-NAME>"), 1);
            }
            if got != src_ser {
                out.push(Failure::new("C13", "copy-differs", format!("`{req}`: serialized copy differs from the serialized source (same version)")));
            }
        }
        if let Ok(m) = cp.model() {
            for (_, e) in cp.elements_dfs() {
                if e.is_identifiable() {
                    let found = e.path().ok().and_then(|p| m.get_element_by_path(&p));
                    if found.as_ref() != Some(&e) {
                        let msg = format!("`{req}`: copied identifiable {} is not found under its path in the destination model", self.nm(&e));
                        // a history that already holds two elements with one path (container move / copy collision, known
                        // finding c04:container-move-copy-collision) copies that state
                        out.push(if self.stop_c456 { Failure::known("C13", SIG_COLLISION_C13, msg) } else { Failure::new("C13", "copy-lookup", msg) });
                        break;
                    }
                }
                if e.is_reference() {
                    if let Some(t) = ref_text(&e) {
                        if !m.get_references_to(&t).iter().any(|w| w.upgrade().as_ref() == Some(&e)) {
                            out.push(Failure::new("C13", "copy-refs", format!("`{req}`: copied reference {} is not listed among the referrers of {t:?}", self.nm(&e))));
                            break;
                        }
                    }
                }
            }
        }
        *self.counts.entry("oracle.c13_copies_compared").or_insert(0) += 1;
        self.pairs.push((src.clone(), cp));
        if self.pairs.len() > 3 {
            self.pairs.remove(0);
        }
    }

    /// duplicate() of model `k`: equal per-file text; edits of the duplicate are invisible in the original;
    /// the duplicate is kept so that later edits of the original can be checked against it
    pub fn dup_check(&mut self, k: usize) -> Vec<Failure> {
        let mut out = vec![];
        if !self.on("C13") || k >= self.w.models.len() {
            return out;
        }
        let m = self.w.models[k].clone();
        let before = self.w.dump();
        match quiet(|| m.duplicate()) {
            Some(Ok(d)) => {
                *self.counts.entry("oracle.c13_duplicates_compared").or_insert(0) += 1;
                // files of different versions: the copy is made in the LOWEST version (content the other files' versions allow is
                // dropped) and the file sets are then transferred by position of two iterations that no longer run in step
                let mixed_versions = {
                    let vs: HashSet<u32> = m.files().map(|f| f.version() as u32).collect();
                    vs.len() > 1 && m.elements_dfs().count() != d.elements_dfs().count()
                };
                for f in m.files() {
                    let other = d.files().find(|x| x.filename() == f.filename());
                    let same = other.as_ref().is_some_and(|o| file_ser(o).ok() == file_ser(&f).ok());
                    if !same && self.root_decorated(k, false) {
                        out.push(Failure::known("C13", SIG_DUP_ROOT, format!("duplicate() of m{k}: <AUTOSAR> carries a comment / non-default attributes, file {:?} serializes differently in the duplicate", f.filename())));
                    } else if !same && mixed_versions {
                        out.push(Failure::known("C13", SIG_DUP_MIXED, format!("duplicate() of m{k}: the files have different versions and the duplicate has fewer elements; file {:?} serializes differently in the duplicate", f.filename())));
                    } else if !same {
                        out.push(Failure::new("C13", "dup-text", format!("duplicate() of m{k}: file {:?} serializes differently in the duplicate (or is missing)", f.filename())));
                    }
                }
                // edits on the duplicate
                let _ = quiet(|| {
                    for (_, e) in d.elements_dfs().collect::<Vec<_>>() {
                        if e.is_identifiable() {
                            let _ = e.set_item_name("dupren");
                            let _ = e.create_sub_element(ElementName::Category).and_then(|c| c.set_character_data("DUP"));
                            break;
                        }
                    }
                    d.root_element().set_comment(Some("dup".to_string()));
                    if let Some(last) = d.elements_dfs().filter(|(dd, _)| *dd == 3).map(|x| x.1).last() {
                        if let Ok(Some(p)) = last.parent() {
                            let _ = p.remove_sub_element(last);
                        }
                    }
                });
                if self.w.dump() != before {
                    out.push(Failure::new("C13", "dup-shared", format!("duplicate() of m{k}: edits of the duplicate changed the original")));
                }
                let sers = d.files().map(|f| { let s = file_ser(&f).unwrap_or_default(); (f, s) }).collect();
                self.dups.push((d, sers));
                if self.dups.len() > 2 {
                    self.dups.remove(0);
                }
            }
            Some(Err(e)) => out.push(Failure::new("C13", "dup-err", format!("duplicate() of m{k} fails: {e}"))),
            None => out.push(Failure::new("C12", "panic", format!("duplicate() of m{k} panics"))),
        }
        if self.w.dump() != before {
            out.push(Failure::new("C13", "dup-shared", format!("duplicate() of m{k} changed the original")));
        }
        self.filter(out)
    }

    /// C14: two containers built from the same siblings in different insertion orders serialize equally after sorting
    pub fn twin_check(&mut self, a: usize, b: usize) -> Vec<Failure> {
        let mut out = vec![];
        if self.on("C14") && self.reach.contains(&a) && self.reach.contains(&b) {
            *self.counts.entry("oracle.c14_twin_comparisons").or_insert(0) += 1;
            let (ea, eb) = (&self.w.elems[a], &self.w.elems[b]);
            if ea.serialize() != eb.serialize() {
                out.push(Failure::new("C14", "order-dependent", format!("e{a} and e{b} hold the same siblings inserted in different orders; after sorting both they serialize differently")));
            }
        }
        self.filter(out)
    }

    /// the generator called the library between two requests (e.g. `serialize()`, which rewrites xsi:schemaLocation of the
    /// shared root element): take the state as it is now as the reference for the next request
    pub fn resync(&mut self) {
        self.last_dump = self.w.dump();
    }

    // ---- one request ----
    pub fn step(&mut self, req: &str) -> (String, Vec<Failure>) {
        let words: Vec<&str> = req.split(' ').collect();
        let verb = words[0];
        let mut out: Vec<Failure> = vec![];
        // harness-only pseudo requests (never written to req.txt; they appear in fail_<n>.req files)
        if verb == "#dup" {
            let k = words.get(1).and_then(|w| handle(w, 'm')).unwrap_or(0);
            return (String::new(), self.dup_check(k));
        }
        if verb == "#twin" {
            let a = words.get(1).and_then(|w| handle(w, 'e')).unwrap_or(usize::MAX);
            let b = words.get(2).and_then(|w| handle(w, 'e')).unwrap_or(usize::MAX);
            return (String::new(), self.twin_check(a, b));
        }
        if !is_mutating(verb) {
            let ans = self.w.exec(req);
            if self.on("C12") && (ans == "panic" || ans == "timeout" || ans == "err ParentElementLocked") {
                out.push(Failure::new("C12", if ans == "panic" { "panic" } else { "locked" }, format!("`{req}` answers `{ans}`")));
            }
            if verb == "compat" && self.on("C17") {
                // "the returned version mask contains the target version exactly when nothing is listed" (any target, also the
                // file's own version)
                let a: Vec<&str> = ans.split(' ').collect();
                if let (Some(v), true, Some(mask)) = (words.get(2).and_then(|v| v.parse::<u32>().ok()), a.len() == 3 && a[0] == "ok", a.get(1).and_then(|m| m.parse::<u32>().ok())) {
                    *self.counts.entry("oracle.c17_compat_checked").or_insert(0) += 1;
                    let own = self.w.h_file(words[1]).is_some_and(|f| f.version() as u32 == v);
                    if own {
                        *self.counts.entry("oracle.c17_compat_with_current_version").or_insert(0) += 1;
                        if a[2] != "-" {
                            *self.counts.entry("oracle.c17_compat_with_current_version_lists_something").or_insert(0) += 1;
                        }
                    }
                    if (mask & v != 0) != (a[2] == "-") {
                        out.push(Failure::new("C17", "mask-iff-compatible", format!("`{req}`: the returned mask {mask:#x} {} the target although the check lists `{}`", if mask & v != 0 { "contains" } else { "lacks" }, a[2].chars().take(80).collect::<String>())));
                    }
                }
            }
            return (ans, self.filter(out));
        }
        if verb == "reset" {
            let (p, k) = (self.prop.clone(), self.kind);
            *self = Checker::new(p, k);
        }
        let handles: Vec<Element> = handle_positions(verb).iter().filter_map(|i| words.get(*i)).filter_map(|w| self.w.h_elem(w)).collect();
        // ---------- pre-state ----------
        let subj: Option<Element> = match verb {
            "rename" => self.w.h_elem(words.get(1).unwrap_or(&"")),
            "move" | "copy" => self.w.h_elem(words.get(2).unwrap_or(&"")),
            _ => None,
        };
        let subj_ident = subj.as_ref().is_some_and(|x| x.is_identifiable());
        let renamed_from: Option<String> = if verb == "rename" { subj.as_ref().and_then(|x| x.path().ok()) } else { None };
        let subj_sub: HashSet<Element> = subj.as_ref().map(|x| x.elements_dfs().map(|y| y.1).collect()).unwrap_or_default();
        let dest: Option<Element> = if verb == "move" || verb == "copy" { self.w.h_elem(words.get(1).unwrap_or(&"")) } else { None };
        let cross_model = match (&dest, &subj) {
            (Some(p), Some(x)) => match (p.model(), x.model()) {
                (Ok(a), Ok(b)) => a != b,
                _ => false,
            },
            _ => false,
        };
        let move_to_ancestor = verb == "move"
            && match (&dest, &subj) {
                (Some(p), Some(x)) => match x.parent() {
                    Ok(Some(xp)) => xp != *p && is_inside(&xp, p),
                    _ => false,
                },
                _ => false,
            };
        let refs_pre: Vec<RefPre> = if (verb == "rename" || verb == "move") && self.on("C06") && !self.stop_c456 { self.all_refs_pre() } else { vec![] };
        let mixed_kids: Vec<usize> = if verb == "cdata" {
            match handles.first() {
                Some(x) if x.content_type() == ContentType::Mixed && x.sub_elements().next().is_some() => x.elements_dfs().skip(1).map(|(_, e)| self.id(&e)).collect(),
                _ => vec![],
            }
        } else {
            vec![]
        };
        let late_sn_trigger = verb == "create"
            && words.get(2).and_then(|n| n.parse::<usize>().ok()).is_some_and(|n| n == ElementName::ShortName as usize)
            && handles.first().is_some_and(|p| p.element_type().is_named());
        let before_sn_trigger = ((verb == "instext" && words.get(2) == Some(&"0"))
            || (verb == "create" && words.get(3) == Some(&"0"))
            || (verb == "named" && words.get(4) == Some(&"0")))
            && handles.first().is_some_and(|p| p.is_identifiable() && p.content_type() == ContentType::Mixed);
        let sort_pre: Option<SortPre> = if (verb == "sort" || verb == "sortm") && (self.on("C14") || self.on("C07")) {
            let top = if verb == "sort" { handles.first().cloned() } else { self.w.h_model(words.get(1).unwrap_or(&"")).map(|m| m.1.root_element()) };
            top.map(|t| SortPre {
                shapes: t.elements_dfs().map(|(_, e)| (self.id(&e), self.shape(&e))).collect(),
                index: (0..self.w.models.len()).map(|k| self.w.dump_index(k)).collect(),
                refs: (0..self.w.models.len()).map(|k| self.w.dump_refs(k)).collect(),
            })
        } else {
            None
        };
        // C14, order independence as a metamorphic relation: sorting a copy of the model must give the same text as sorting a
        // copy in which every sub-element was sorted on its own first (that copy is a permutation of reorderable siblings)
        let sort_meta: Option<(String, String, bool)> = if (verb == "sort" || verb == "sortm") && self.on("C14") {
            let top = if verb == "sort" { handles.first().cloned() } else { self.w.h_model(words.get(1).unwrap_or(&"")).map(|m| m.1.root_element()) };
            if let Some(t) = &top {
                // input distribution: how many of the sorted containers order some of their children by content alone, and
                // how many of those children hold reorderable (and at this moment unsorted) containers of their own
                let (cc, nested, unsorted) = content_compared_stats(t);
                *self.counts.entry("sort.containers_with_content_compared_siblings").or_insert(0) += cc;
                *self.counts.entry("sort.containers_with_content_compared_siblings_holding_reorderable_children").or_insert(0) += nested;
                *self.counts.entry("sort.containers_with_content_compared_siblings_holding_unsorted_reorderable_children").or_insert(0) += unsorted;
                if unsorted > 0 {
                    *self.counts.entry("sort.requests_on_content_compared_siblings_with_unsorted_children").or_insert(0) += 1;
                }
            }
            top.and_then(|t| sort_metamorphic(&t))
        } else {
            None
        };
        // C17 ("changing a file's version succeeds exactly when the check lists no incompatibility, and the returned mask
        // contains the target exactly in that case"), evaluated directly on the library for every `setver` - also when the
        // target is the version the file already has
        let setver_pre: Option<(ArxmlFile, AutosarVersion, usize, u32, AutosarVersion)> = if verb == "setver" && self.on("C17") {
            match (self.w.h_file(words.get(1).unwrap_or(&"")), words.get(2).and_then(|v| v.parse::<u32>().ok()).and_then(AutosarVersion::from_val)) {
                (Some(f), Some(v)) => quiet(|| {
                    let (errs, mask) = f.check_version_compatibility(v);
                    let n = errs.len();
                    drop(errs);
                    let old = f.version();
                    (f, v, n, mask, old)
                }),
                _ => None,
            }
        } else {
            None
        };
        let files_trigger: Option<(&'static str, &'static str)> = match verb {
            "addfile" => match (handles.first().and_then(|x| x.model().ok()), self.w.h_file(words.get(2).unwrap_or(&""))) {
                (Some(m), Some(f)) if !m.files().any(|x| x == f) => Some(SIG_STALE_FILE),
                _ => None,
            },
            "rmfromfile" => match handles.first() {
                Some(x) if matches!(x.parent(), Ok(None)) => Some(SIG_ROOT_UNFILED),
                _ => None,
            },
            "move" => match (&dest, &subj) {
                (Some(p), Some(x)) => match p.file_membership() {
                    Ok((_, d)) if x.elements_dfs().skip(1).any(|(_, e)| matches!(e.file_membership(), Ok((true, set)) if !set.is_subset(&d))) => Some(SIG_SPLIT_MOVE),
                    _ => None,
                },
                _ => None,
            },
            _ => None,
        };
        if verb == "rmfile" {
            if let (Some((k, m)), Some(f)) = (self.w.h_model(words.get(1).unwrap_or(&"")), self.w.h_file(words.get(2).unwrap_or(&""))) {
                if m.files().count() == 1 && m.files().next().as_ref() == Some(&f) {
                    let root = self.w.root_id[k];
                    if let Some(l) = self.live.get(k) {
                        let ids: Vec<usize> = l.iter().copied().filter(|i| Some(*i) != root).collect();
                        self.emptied.extend(ids);
                    }
                }
            }
        }
        let rmfile_pre = if verb == "rmfile" && self.kind == Kind::Files && self.on("C10") { self.rmfile_pre(&words) } else { None };
        let c13 = self.kind == Kind::Copy && self.on("C13");
        let src_ser: Option<String> = if c13 && verb == "copy" { subj.as_ref().map(|x| x.serialize()) } else { None };
        // "a copy into an older or newer version omits exactly the parts not permitted there and still validates": the number of
        // incompatibilities each file of the destination model has with ITS OWN version must not grow by a copy
        let compat_pre: Vec<(ArxmlFile, usize)> = if c13 && verb == "copy" {
            dest.as_ref().and_then(|p| p.model().ok()).map(|m| m.files().map(|f| { let n = f.check_version_compatibility(f.version()).0.len(); (f, n) }).collect()).unwrap_or_default()
        } else {
            vec![]
        };
        // C07: a move inside one model must not leave a file with content its own version does not permit (a move between files of
        // different versions is to be refused): same measure as for copies
        let move_compat_pre: Vec<(ArxmlFile, usize)> = if self.on("C07") && verb == "move" {
            dest.as_ref().and_then(|p| p.model().ok()).map(|m| m.files().map(|f| { let n = f.check_version_compatibility(f.version()).0.len(); (f, n) }).collect()).unwrap_or_default()
        } else {
            vec![]
        };
        // elements that some file's own version already does not permit BEFORE the move (content created below a parent whose files
        // have different versions is validated against the lowest of them only), with the version that rejects them
        let compat_elem = |e: &CompatibilityError| match e {
            CompatibilityError::IncompatibleAttribute { element, .. } | CompatibilityError::IncompatibleAttributeValue { element, .. } | CompatibilityError::IncompatibleElement { element, .. } => element.clone(),
        };
        let move_bad_pre: HashSet<(Element, u32)> = move_compat_pre
            .iter()
            .filter(|(_, n)| *n > 0)
            .flat_map(|(f, _)| { let v = f.version() as u32; f.check_version_compatibility(f.version()).0.iter().map(|e| (compat_elem(e), v)).collect::<Vec<_>>() })
            .collect();
        let mut pair_pre: Vec<(usize, Side, String)> = vec![];
        if c13 && !matches!(verb, "reset" | "newmodel" | "mkfile") {
            for (pi, (src, cp)) in self.pairs.iter().enumerate() {
                let Some(side) = self.side_of(&handles, src, cp) else { continue };
                let (this, other) = if side == Side::Cp { (cp, src) } else { (src, cp) };
                let _ = this;
                if verb == "rename" || verb == "move" {
                    // the edit legitimately rewrites references of the other side that designate the renamed/moved element
                    let sp = subj.as_ref().and_then(|x| x.path().ok());
                    let touches = other.elements_dfs().any(|(_, e)| {
                        e.is_reference()
                            && ref_text(&e).is_some_and(|t| {
                                sp.as_ref().is_some_and(|p| t == *p || t.starts_with(&format!("{p}/"))) || e.model().ok().and_then(|m| m.get_element_by_path(&t)).is_some_and(|x| subj_sub.contains(&x))
                            })
                    });
                    if touches {
                        continue;
                    }
                }
                pair_pre.push((pi, side, other.serialize()));
            }
        }
        // ---------- the request ----------
        let ans = self.w.exec(req);
        let ok = ans.starts_with("ok");
        let after = self.w.dump();
        // ---------- C12 / C11 ----------
        if self.on("C12") && (ans == "panic" || ans == "timeout" || ans == "err ParentElementLocked") {
            if ans == "err ParentElementLocked" && move_to_ancestor {
                out.push(Failure::known("C12", SIG_ANCESTOR, format!("`{req}` (destination is a proper ancestor of the element's parent) answers `{ans}`")));
            } else {
                out.push(Failure::new("C12", if ans == "panic" { "panic" } else { "locked" }, format!("`{req}` answers `{ans}`")));
            }
        }
        if self.on("C11") && ans.starts_with("err") && after != self.last_dump {
            let p = after.bytes().zip(self.last_dump.bytes()).take_while(|(x, y)| x == y).count();
            let cut = |t: &str| -> String { t.chars().skip(p.saturating_sub(40)).take(160).collect() };
            let short_req: String = req.chars().take(120).collect();
            let msg = format!("`{short_req}` answers `{ans}` but the dump changed: before ..{} | after ..{}", cut(&self.last_dump), cut(&after));
            if verb == "load" && ans == "err InvalidFileMerge" {
                out.push(Failure::known("C11", SIG_PARTIAL_MERGE, msg));
            } else {
                out.push(Failure::new("C11", verb, msg));
            }
        }
        // ---------- state oracles ----------
        if ok && (verb == "move" || verb == "copy") {
            if let (Some(p), Some(x)) = (&dest, &subj) {
                if let Some((t, _)) = p.element_type().find_sub_element(x.element_name(), u32::MAX) {
                    if t != x.element_type() {
                        self.alien_type = true;
                    }
                }
            }
        }
        let files_sig = if ok { files_trigger } else { None }.or(self.files_sticky);
        let snaps = self.traverse();
        self.refresh_live(&snaps);
        self.emptied.retain(|i| !self.reach.contains(i));
        if ok && !mixed_kids.is_empty() {
            self.dropped.extend(mixed_kids.iter().copied().filter(|i| !self.reach.contains(i)));
        }
        if self.on("C03") {
            self.c03_tree(&snaps, files_sig, &mut out);
            self.c03_stale(&mut out);
        }
        if !self.stop_c456 {
            let container_op = ok && (verb == "move" || verb == "copy") && subj.is_some() && !subj_ident;
            let mixed_hit = ok && !mixed_kids.is_empty();
            if ok && late_sn_trigger {
                self.late_short_name = true;
            }
            if ok && before_sn_trigger {
                self.before_short_name = true;
            }
            // a loaded DOCUMENT in which two identifiable elements have one path is accepted by the loader (known finding
            // c04:document-with-duplicate-paths-accepted): decided here from the elements this load created, by their own names
            let dup_doc = ok && verb == "load" && {
                let new_ids: Vec<usize> = ans.split(' ').skip(4).filter_map(|w| handle(w, 'e')).collect();
                let mut ps: Vec<String> = new_ids.iter().filter_map(|i| self.w.elems.get(*i)).filter(|e| e.is_identifiable()).filter_map(|e| e.path().ok()).collect();
                ps.sort();
                ps.windows(2).any(|w2| w2[0] == w2[1])
            };
            if self.on("C04") || container_op || mixed_hit || dup_doc {
                let mut v = vec![];
                self.c04(&snaps, &mut v);
                if !v.is_empty() && dup_doc {
                    let first = v.remove(0);
                    v = vec![Failure::known("C04", SIG_DUP_DOC, format!("after `{}` (the document itself holds two identifiable elements with one path): {}", req.chars().take(60).collect::<String>(), first.msg))];
                    self.stop_c456 = true;
                } else if !v.is_empty() && snaps.iter().any(|s| s.pre.iter().any(|(_, e, _)| e.is_identifiable() && e.item_name().is_none())) {
                    // an identifiable element whose SHORT-NAME holds no text (accepted by the loader: known finding
                    // c08:empty-short-name-accepted) has the path "" and no index entry
                    let first = v.remove(0);
                    v = vec![Failure::known("C04", SIG_EMPTY_SN_C04, format!("after `{}` (an element with an EMPTY SHORT-NAME is part of the model): {}", req.chars().take(60).collect::<String>(), first.msg))];
                } else if !v.is_empty() && snaps.iter().any(|s| s.pre.iter().any(|(_, e, _)| e.sub_elements().skip(1).any(|c| c.element_name() == ElementName::ShortName))) {
                    // a SHORT-NAME that is not the first sub-element (the loader does not check the order of a sequence: known
                    // finding c04:short-name-not-first-accepted): the element has no item name, the index holds a path for it
                    let first = v.remove(0);
                    v = vec![Failure::known("C04", SIG_SN_NOT_FIRST, format!("after `{}` (an element whose SHORT-NAME is not its first sub-element is part of the model): {}", req.chars().take(60).collect::<String>(), first.msg))];
                } else if !v.is_empty() && container_op && {
                    // what the finding says: after the operation two reachable identifiable elements have one path
                    snaps.iter().any(|s| {
                        let mut ps: Vec<String> = s.pre.iter().filter(|(_, e, _)| e.is_identifiable()).filter_map(|(_, e, _)| e.path().ok()).collect();
                        ps.sort();
                        ps.windows(2).any(|w2| w2[0] == w2[1])
                    })
                } {
                    let first = v.remove(0);
                    v = vec![Failure::known("C04", SIG_COLLISION, format!("after `{req}` (subject is not identifiable): {}", first.msg))];
                    self.stop_c456 = true;
                } else if !v.is_empty() && mixed_hit {
                    let first = v.remove(0);
                    v = vec![Failure::known("C04", SIG_MIXED_C04, format!("after `{req}` on a MIXED element with sub-elements: {}", first.msg))];
                } else if !v.is_empty() && self.before_short_name {
                    let first = v.remove(0);
                    v = vec![Failure::known("C04", SIG_BEFORE_SN, format!("after `{req}` (content in front of the SHORT-NAME of a MIXED named element): {}", first.msg))];
                } else if !v.is_empty() && self.late_short_name {
                    let first = v.remove(0);
                    v = vec![Failure::known("C04", SIG_LATE_SN, format!("after `{req}` (a SHORT-NAME was created later in an element that had none): {}", first.msg))];
                }
                if self.on("C04") {
                    out.extend(v);
                }
            }
            if !self.stop_c456 && self.on("C05") {
                let mut v = vec![];
                self.c05(&snaps, &mut v);
                if !v.is_empty() && mixed_hit {
                    let first = v.remove(0);
                    v = vec![Failure::known("C05", SIG_MIXED_C05, format!("after `{req}` on a MIXED element with sub-elements: {}", first.msg))];
                }
                out.extend(v);
            }
            if !self.stop_c456 && ok && (verb == "rename" || verb == "move") && self.on("C06") && !refs_pre.is_empty() {
                *self.counts.entry("oracle.c06_checked").or_insert(0) += 1;
                self.c06(req, &refs_pre, &subj_sub, cross_model, renamed_from.as_deref(), &mut out);
            }
            if mixed_hit {
                // the index / referrer lists stay inconsistent from here on
                self.stop_c456 = true;
            }
        }
        if let Some(sp) = sort_pre.as_ref().filter(|_| !self.on("C14")) {
            // C07: what `sort` leaves conforms to the specification (order of a sequence)
            *self.counts.entry("oracle.c07_sorts_checked").or_insert(0) += 1;
            for (i, sh) in &sp.shapes {
                if *i == usize::MAX || !self.reach.contains(i) {
                    continue;
                }
                let now = self.shape(&self.w.elems[*i]);
                if sh.in_spec_order && !now.in_spec_order {
                    out.push(Failure::new("C07", "sort-spec-order", format!("`{req}`: the sub-elements of e{i} were in specification order before the sort and are not afterwards (the model is no longer valid)")));
                    break;
                }
            }
        }
        let sort_pre = if self.on("C14") { sort_pre } else { None };
        if let Some(sp) = &sort_pre {
            *self.counts.entry("oracle.c14_sorts_checked").or_insert(0) += 1;
            for (i, sh) in &sp.shapes {
                if *i == usize::MAX {
                    continue;
                }
                let now = self.shape(&self.w.elems[*i]);
                if now.kids != sh.kids || now.texts != sh.texts {
                    out.push(Failure::new("C14", "content", format!("`{req}`: the children / character data of e{i} changed (not only their order)")));
                    break;
                }
                if now.attrs != sh.attrs || now.comment != sh.comment {
                    out.push(Failure::new("C14", "attrs", format!("`{req}`: attributes or comment of e{i} changed")));
                    break;
                }
                if sh.in_spec_order && !now.in_spec_order {
                    out.push(Failure::new("C14", "spec-order", format!("`{req}`: the sub-elements of e{i} were in specification order before the sort and are not afterwards (the model is no longer valid)")));
                    break;
                }
            }
            for k in 0..self.w.models.len().min(sp.index.len()) {
                if self.w.dump_index(k) != sp.index[k] || self.w.dump_refs(k) != sp.refs[k] {
                    out.push(Failure::new("C14", "index", format!("`{req}`: path index or referrer lists of m{k} changed")));
                }
            }
            if let Some((prev, true)) = &self.prev_mut {
                if prev == req && after != self.last_dump {
                    out.push(Failure::new("C14", "idempotent", format!("`{req}` issued twice in a row: the second sort changed the model")));
                }
            }
            if !ok {
                out.push(Failure::new("C14", "fails", format!("`{req}` answers `{ans}`")));
            }
            if let Some((plain, presorted, defref_without_text)) = &sort_meta {
                *self.counts.entry("oracle.c14_metamorphic_checks").or_insert(0) += 1;
                if plain != presorted {
                    let (a, b) = first_difference(plain, presorted);
                    let msg = format!("`{req}`: sorting a duplicate of the model and sorting a duplicate whose sub-elements were each sorted on their own first (a permutation of reorderable siblings) give different texts; first difference: `{a}` vs `{b}`");
                    if *defref_without_text {
                        out.push(Failure::known("C14", SIG_NONTRANSITIVE, msg));
                    } else {
                        out.push(Failure::new("C14", "order-dependent-subtree", msg));
                    }
                }
            }
        }
        if let Some((f, v, n_errs, mask, old)) = &setver_pre {
            *self.counts.entry("oracle.c17_setver_checked").or_insert(0) += 1;
            let same = old == v;
            if same {
                *self.counts.entry("oracle.c17_setver_to_current_version").or_insert(0) += 1;
                if *n_errs > 0 {
                    *self.counts.entry("oracle.c17_setver_to_current_version_of_incompatible_file").or_insert(0) += 1;
                }
            }
            let where_ = format!("`{req}` (file version before: {old:?}, target {v:?}{})", if same { ", the version the file already has" } else { "" });
            if (ans == "ok") != (*n_errs == 0) && (ans == "ok" || ans == "err") {
                out.push(Failure::new("C17", "setver-iff-compatible", format!("{where_} answers `{ans}` although check_version_compatibility lists {n_errs} incompatibilities for that target (mask {mask:#x})")));
            }
            if (mask & (*v as u32) != 0) != (*n_errs == 0) {
                out.push(Failure::new("C17", "mask-iff-compatible", format!("{where_}: the returned mask {mask:#x} {} the target although the check lists {n_errs} incompatibilities", if mask & (*v as u32) != 0 { "contains" } else { "lacks" })));
            }
            if ans == "ok" && f.version() != *v {
                out.push(Failure::new("C17", "setver-version", format!("{where_} answers ok but the file reports {:?}", f.version())));
            }
        }
        if ok && !move_compat_pre.is_empty() {
            *self.counts.entry("oracle.c07_move_validity_checks").or_insert(0) += move_compat_pre.len() as u64;
            for (f, n) in &move_compat_pre {
                let (errs, _) = f.check_version_compatibility(f.version());
                if *n == 0 && !errs.is_empty() {
                    let what = match errs.iter().last() {
                        Some(CompatibilityError::IncompatibleAttribute { element, attribute, .. }) => format!("attribute {attribute:?} of {}", element.xml_path()),
                        Some(CompatibilityError::IncompatibleAttributeValue { element, attribute, attribute_value, .. }) => format!("value {attribute_value} of attribute {attribute:?} of {}", element.xml_path()),
                        Some(CompatibilityError::IncompatibleElement { element, .. }) => format!("element {}", element.xml_path()),
                        None => String::new(),
                    };
                    let msg = format!("`{req}`: after the move a file holds content its own version {:?} does not permit ({} incompatibilities, none before); last: {what}", f.version(), errs.len());
                    let v = f.version() as u32;
                    if errs.iter().all(|e| move_bad_pre.contains(&(compat_elem(e), v))) {
                        // nothing new: every element listed was already rejected by a file of this very version before the move
                        out.push(Failure::known("C07", SIG_LOWEST_VERSION, format!("{msg} - the same elements were already not permitted in another file of that version before the move")));
                    } else if !self.alien_type {
                        out.push(Failure::new("C07", "move-invalid-in-destination", msg));
                    }
                    break;
                }
            }
        }
        if ok && self.on("C07") && (verb == "move" || verb == "copy") {
            // C07: "all … values are permitted": the item name the operation wrote (a `_<n>` suffix for uniqueness) must still be a value the
            // SHORT-NAME's own specification accepts - judged with the independent regular-expression matcher of this harness
            let target: Option<Element> = if verb == "move" { subj.clone() } else { created_ids(req, &ans).first().and_then(|i| self.w.elems.get(*i).cloned()) };
            if let Some(sn) = target.as_ref().and_then(|x| x.get_sub_element(ElementName::ShortName)) {
                if let (Some(CharacterDataSpec::Pattern { regex, max_length, .. }), Some(v)) = (sn.element_type().chardata_spec(), sn.character_data().and_then(|c| c.string_value())) {
                    *self.counts.entry("oracle.c07_item_name_checks").or_insert(0) += 1;
                    let re = crate::rx::parse(regex);
                    let too_long = max_length.is_some_and(|m| v.len() > m);
                    let no_match = re.as_ref().is_some_and(|re| !crate::rx::matches(re, v.as_bytes()));
                    // only names that the operation itself extended by `_<n>` from a valid name are judged
                    let base_valid = v.rsplit_once('_').is_some_and(|(b, n)| {
                        !n.is_empty() && n.chars().all(|c| c.is_ascii_digit()) && max_length.is_none_or(|m| b.len() <= m) && re.as_ref().is_none_or(|re| crate::rx::matches(re, b.as_bytes()))
                    });
                    if base_valid && too_long && !no_match {
                        out.push(Failure::known("C07", SIG_LONG_UNIQUE_NAME, format!("`{req}`: the item name written for uniqueness has {} characters, the SHORT-NAME's specification allows {:?}", v.len(), max_length)));
                    } else if base_valid && (too_long || no_match) {
                        out.push(Failure::new("C07", "item-name-invalid", format!("`{req}`: the item name `{v}` written by the operation is not a value the SHORT-NAME's specification accepts")));
                    }
                }
            }
        }
        if c13 {
            if ok {
                *self.counts.entry("oracle.c13_independence_checks").or_insert(0) += pair_pre.len() as u64;
                for (pi, side, ser) in &pair_pre {
                    let (src, cp) = &self.pairs[*pi];
                    let other = if *side == Side::Cp { src } else { cp };
                    if other.serialize() != *ser {
                        out.push(Failure::new("C13", "not-independent", format!("`{req}` addresses only the {} of a deep copy, but the serialization of the {} changed", if *side == Side::Cp { "copy" } else { "source" }, if *side == Side::Cp { "source" } else { "copy" })));
                    }
                }
                for (f, n) in &compat_pre {
                    let (errs, _) = f.check_version_compatibility(f.version());
                    // (a file that was not valid for its own version before is not judged: the copy may replicate that content)
                    if *n == 0 && !errs.is_empty() {
                        *self.counts.entry("oracle.c13_copy_left_incompatibility").or_insert(0) += 1;
                        let what = match errs.iter().last() {
                            Some(CompatibilityError::IncompatibleAttribute { element, attribute, .. }) => format!("attribute {attribute:?} of {}", element.xml_path()),
                            Some(CompatibilityError::IncompatibleAttributeValue { element, attribute, attribute_value, .. }) => format!("value {attribute_value} of attribute {attribute:?} of {}", element.xml_path()),
                            Some(CompatibilityError::IncompatibleElement { element, .. }) => format!("element {}", element.xml_path()),
                            None => String::new(),
                        };
                        let msg = format!("`{req}`: the copy is not valid in the destination: the file was compatible with its own version {:?} before and has {} incompatibilities now; last: {what}", f.version(), errs.len());
                        out.push(if self.alien_type { Failure::known("C13", SIG_ALIEN_TYPE_C13, msg) } else { Failure::new("C13", "copy-invalid-in-destination", msg) });
                        break;
                    }
                }
                *self.counts.entry("oracle.c13_copy_validity_checks").or_insert(0) += compat_pre.len() as u64;
                if let (Some(s), Some(x)) = (&src_ser, &subj) {
                    if verb == "copy" {
                        let x = x.clone();
                        self.c13_copy_done(req, &x, s, &ans, &mut out);
                    }
                }
            }
            let reach = &self.reach;
            let ids = &self.w.ids;
            self.pairs.retain(|(a, b)| ids.get(a).is_some_and(|i| reach.contains(i)) && ids.get(b).is_some_and(|i| reach.contains(i)));
            for (di, (_, sers)) in self.dups.iter().enumerate() {
                if sers.iter().any(|(f, s)| file_ser(f).ok().as_ref() != Some(s)) {
                    out.push(Failure::new("C13", "dup-follows-original", format!("`{req}` on the original changed the text of duplicate #{di}")));
                }
            }
        }
        if self.kind == Kind::Files && self.on("C10") {
            let mut v = vec![];
            self.c10(&snaps, &mut v);
            if let Some((_, c10)) = files_sig {
                // one report for the family; the state stays inconsistent afterwards
                if let Some(first) = v.into_iter().next() {
                    out.push(Failure::known("C10", c10, format!("after `{req}`: {}", first.msg)));
                }
            } else {
                out.extend(v);
            }
            if let Some(p) = &rmfile_pre {
                *self.counts.entry("oracle.c10_rmfile_checked").or_insert(0) += 1;
                self.rmfile_post(req, p, &mut out);
            }
        }
        if files_sig.is_some() {
            self.files_sticky = files_sig;
        }
        // the probes / checks themselves must not have changed anything
        let end = self.w.dump();
        if end != after && self.on("C03") {
            out.push(Failure::new("C03", "probe-effect", format!("after `{req}`: read-only navigation calls and calls through stale handles changed the dump")));
        }
        self.last_dump = end;
        self.prev_mut = Some((req.to_string(), ok));
        (ans, self.filter(out))
    }
}

// ------------------------------------------------------------------------------------------------
// shrinking and replay
// ------------------------------------------------------------------------------------------------

fn run_with_timeout<T: Send + 'static>(d: Duration, f: impl FnOnce() -> T + Send + 'static) -> Option<T> {
    let (tx, rx) = std::sync::mpsc::channel();
    std::thread::spawn(move || {
        let _ = tx.send(f());
    });
    rx.recv_timeout(d).ok()
}

/// element ids issued by an answer (`ok e5`, `ok e5 e6 …`, `ok f1 e0`)
fn created_ids(req: &str, ans: &str) -> Vec<usize> {
    let verb = req.split(' ').next().unwrap_or("");
    if !matches!(verb, "create" | "named" | "copy" | "mkfile") || !ans.starts_with("ok") {
        return vec![];
    }
    ans.split(' ').skip(1).filter_map(|w| handle(w, 'e')).collect()
}

#[derive(Clone)]
struct Item {
    req: String,
    created: Vec<usize>,
}

fn rewrite(req: &str, map: &HashMap<usize, usize>) -> Option<String> {
    let mut words: Vec<String> = req.split(' ').map(|s| s.to_string()).collect();
    for p in handle_positions(&words[0].clone()) {
        if let Some(w) = words.get_mut(*p) {
            if let Some(i) = handle(w, 'e') {
                // an id whose creating request was deleted (or now fails) makes the request meaningless: drop it
                *w = format!("e{}", map.get(&i)?);
            }
        }
    }
    Some(words.join(" "))
}

/// replays `items` (original numbering, ids re-mapped on the fly); Some((requests as replayed, index of the item at which
/// the oracle `key` reported)) if it does
fn replay_check(items: &[Item], key: &str, prop: Option<String>, kind: Kind) -> Option<(Vec<String>, usize)> {
    let items: Vec<Item> = items.to_vec();
    let key = key.to_string();
    run_with_timeout(Duration::from_secs(15), move || {
        let mut ck = Checker::new(prop, kind);
        let mut map: HashMap<usize, usize> = HashMap::new();
        let mut outreqs = vec![];
        for (n, it) in items.iter().enumerate() {
            let Some(r) = rewrite(&it.req, &map) else { continue };
            let (ans, fails) = ck.step(&r);
            for (o, nw) in it.created.iter().zip(created_ids(&r, &ans)) {
                map.insert(*o, nw);
            }
            outreqs.push(r);
            if fails.iter().any(|f| f.key == key) {
                return Some((outreqs, n));
            }
        }
        None
    })
    .flatten()
}

/// delta debugging on the request list (at most ~200 replays); returns the shrunk request list
fn shrink(hist: &[(String, String)], key: &str, prop: Option<String>, kind: Kind) -> (Vec<String>, bool) {
    let orig: Vec<String> = hist.iter().map(|x| x.0.clone()).collect();
    let mut cur: Vec<Item> = hist.iter().map(|(r, a)| Item { req: r.clone(), created: created_ids(r, a) }).collect();
    let mut budget = 200i32;
    let Some((mut best, n)) = replay_check(&cur, key, prop.clone(), kind) else { return (orig, false) };
    cur.truncate(n + 1);
    let protected = |r: &str| matches!(r.split(' ').next().unwrap_or(""), "reset" | "newmodel" | "mkfile");
    // all queries at once
    let cand: Vec<Item> = cur.iter().enumerate().filter(|(i, it)| *i + 1 == cur.len() || is_mutating(it.req.split(' ').next().unwrap_or("")) || it.req.starts_with('#')).map(|x| x.1.clone()).collect();
    if cand.len() < cur.len() {
        budget -= 1;
        if let Some((b, n)) = replay_check(&cand, key, prop.clone(), kind) {
            cur = cand;
            cur.truncate(n + 1);
            best = b;
        }
    }
    for size in [32usize, 16, 8, 4, 2, 1] {
        let mut end = cur.len().saturating_sub(1);
        while end > 0 && budget > 0 {
            let start = end.saturating_sub(size);
            if end > cur.len().saturating_sub(1) {
                end = cur.len().saturating_sub(1);
                continue;
            }
            let cand: Vec<Item> = cur.iter().enumerate().filter(|(i, it)| !(*i >= start && *i < end) || protected(&it.req)).map(|x| x.1.clone()).collect();
            if cand.len() < cur.len() {
                budget -= 1;
                if let Some((b, n)) = replay_check(&cand, key, prop.clone(), kind) {
                    cur = cand;
                    cur.truncate(n + 1);
                    best = b;
                }
            }
            end = start;
        }
    }
    (best, true)
}

// ------------------------------------------------------------------------------------------------
// history runner with watchdog
// ------------------------------------------------------------------------------------------------

#[derive(Default)]
struct HistOut {
    lines: Vec<(String, String)>,
    /// (failure, history (request, answer) up to and including the failing request)
    fails: Vec<(Failure, Vec<(String, String)>)>,
    stats: Vec<(String, u64)>,
    inflight: Option<(String, Instant)>,
    hist: Vec<(String, String)>,
    /// which rare triggers this history may generate (diagnostics)
    flags: String,
    done: bool,
}
type Shared = Arc<Mutex<HistOut>>;

const REQ_TIMEOUT: Duration = Duration::from_secs(5);

/// waits for a history worker; on a hang reports C12 and abandons the worker thread
fn wait_for(sh: &Shared, started: Instant, total: Duration) {
    loop {
        {
            let mut g = sh.lock().unwrap();
            if g.done {
                return;
            }
            let hung = g.inflight.as_ref().is_some_and(|(_, t)| t.elapsed() > REQ_TIMEOUT);
            if hung || started.elapsed() > total {
                let req = g.inflight.as_ref().map(|x| x.0.clone()).unwrap_or_else(|| "(between requests)".to_string());
                let mut h = g.hist.clone();
                if g.inflight.is_some() {
                    h.push((req.clone(), "timeout".to_string()));
                    if !req.starts_with('#') {
                        g.lines.push((req.clone(), "timeout".to_string()));
                    }
                }
                let what = if hung { format!("`{req}` did not return within {} s (or the oracle calls following it hang)", REQ_TIMEOUT.as_secs()) } else { format!("history did not finish within {} s; last request issued: `{req}`", total.as_secs()) };
                let _w: Vec<&str> = req.split(' ').collect();
                // (p.remove_sub_element(p) used to hang: known finding c12:remove-self-deadlock, repaired by 91e634a - a hang is a violation again)
                let f = Failure::new("C12", "timeout", what);
                g.fails.push((f, h));
                g.stats.push(("timeouts".to_string(), 1));
                g.done = true;
                return;
            }
        }
        std::thread::sleep(Duration::from_millis(2));
    }
}

struct Reporter {
    out: String,
    nfail: usize,
    shrunk_per_key: HashMap<String, u32>,
    prop: Option<String>,
}
impl Reporter {
    fn report(&mut self, k: &mut Sink, f: &Failure, hist: &[(String, String)], kind: Kind, label: &str) {
        let n = self.nfail;
        self.nfail += 1;
        let c = self.shrunk_per_key.entry(f.key.clone()).or_insert(0);
        *c += 1;
        let do_shrink = *c <= 3 && f.key != "C12:timeout" && f.key != "C12:panic-oracle";
        let t0 = Instant::now();
        let (reqs, reproduced) = if do_shrink { shrink(hist, &f.key, self.prop.clone(), kind) } else { (hist.iter().map(|x| x.0.clone()).collect(), false) };
        if do_shrink {
            *k.stats.entry("shrink_ms".to_string()).or_insert(0) += t0.elapsed().as_millis() as u64;
        }
        let path = format!("{}/fail_{n}.req", self.out);
        if n < 300 {
            let _ = std::fs::write(&path, reqs.join("\n") + "\n");
            if reqs.len() != hist.len() {
                let _ = std::fs::write(format!("{}/fail_{n}.full.req", self.out), hist.iter().map(|x| x.0.clone()).collect::<Vec<_>>().join("\n") + "\n");
            }
        }
        let note = if do_shrink && !reproduced { "; NOT reproduced when replayed from scratch" } else { "" };
        k.fail(format!("{} [{label} kind={}; {} requests, shrunk to {}{note}; replay: avharness world --kind {} --replay {path}]", f.text(), kind.name(), hist.len(), reqs.len(), kind.name()));
        k.stat(&format!("fail.{}", f.key));
    }
}

fn sink_lines(k: &mut Sink, lines: &[(String, String)]) {
    for (r, a) in lines {
        k.put(r, a, !a.starts_with("err") && a != "none");
    }
}

/// `--replay <file>`: answers a request file with the real library and evaluates the oracles on it
pub fn run_replay(out: &str, file: &str, prop: Option<&str>, kind: Option<&str>) {
    silence_panics();
    let kind = kind.and_then(Kind::parse).unwrap_or(Kind::Basic);
    let reqs: Vec<String> = std::fs::read_to_string(file).expect("request file").lines().filter(|l| !l.is_empty()).map(|s| s.to_string()).collect();
    let mut k = Sink::new(out);
    let sh: Shared = Arc::new(Mutex::new(HistOut::default()));
    let sh2 = sh.clone();
    let p2 = prop.map(|s| s.to_string());
    let started = Instant::now();
    std::thread::spawn(move || {
        let mut ck = Checker::new(p2, kind);
        for r in reqs {
            sh2.lock().unwrap().inflight = Some((r.clone(), Instant::now()));
            let (ans, fails) = ck.step(&r);
            let mut g = sh2.lock().unwrap();
            if g.done {
                return;
            }
            g.inflight = None;
            g.hist.push((r.clone(), ans.clone()));
            if !r.starts_with('#') {
                g.lines.push((r, ans));
            }
            let h = g.hist.clone();
            for f in fails {
                g.fails.push((f, h.clone()));
            }
        }
        sh2.lock().unwrap().done = true;
    });
    wait_for(&sh, started, Duration::from_secs(600));
    let g = sh.lock().unwrap();
    sink_lines(&mut k, &g.lines);
    for (f, _) in &g.fails {
        k.fail(f.text());
        eprintln!("{}", f.text());
    }
    k.finish(out, "");
}

// ------------------------------------------------------------------------------------------------
// 2. history generator
// ------------------------------------------------------------------------------------------------

// (the last name ends in digits whose value does not fit u64: `decompose_item_name` must fall back to the whole name, seed C12_6)
const UNIVERSE: [&str; 9] = ["a", "a1", "a10", "a1b", "a2", "pkg1", "pkg10", "b", "a18446744073709551616"];
const TEXT_POOL: [&str; 22] = ["0", "1", "8", "42", "0x1F", "017", "true", "false", "abc", "CAT", "x_1", "1.0.0", "2.3.4_rc", "/a/b", "a b", "", "-5", "+7", "0b101", "2024-01-01", "hello world", "a<b&c"];
const BAD_NAMES: [&str; 5] = ["", "1a", "a-b", "a b", "/a"];

struct Gen {
    rng: Rng,
    ck: Checker,
    sh: Shared,
    kind: Kind,
    thorough: bool,
    phase: &'static str,
    nmut: usize,
    stats: BTreeMap<String, u64>,
    /// restricts the handle pools to the subtree of this element (copy kind: edits inside a copy / its source)
    scope: Option<usize>,
    allow_collision: bool,
    allow_load: bool,
    allow_ancestor: bool,
    allow_mixed: bool,
    allow_rmself: bool,
    allow_dangling_rename: bool,
    allow_last_file: bool,
    allow_stale_file: bool,
    allow_root_attr: bool,
    allow_split_move: bool,
    /// lenient loads may carry a SHORT-NAME that is no identifier ("1a", "a-b"): accepted with a warning, later operations meet it
    allow_bad_names: bool,
    /// template parts built without a `dump` after every request (one `dump` at their end instead)
    quiet_build: bool,
}

#[derive(Clone)]
enum Spec {
    Named(ElementName, &'static str, Vec<Spec>),
    Plain(ElementName, Vec<Spec>),
    Leaf(ElementName, &'static str),
    Ref(ElementName, &'static str, EnumItem),
}

impl Gen {
    fn stat(&mut self, k: String) {
        *self.stats.entry(k).or_insert(0) += 1;
    }

    fn req(&mut self, r: String) -> String {
        self.sh.lock().unwrap().inflight = Some((r.clone(), Instant::now()));
        let (ans, fails) = self.ck.step(&r);
        let verb = r.split(' ').next().unwrap_or("").to_string();
        {
            let mut g = self.sh.lock().unwrap();
            if g.done {
                drop(g);
                panic!("abandoned by the watchdog");
            }
            g.inflight = None;
            g.hist.push((r.clone(), ans.clone()));
            if !r.starts_with('#') {
                g.lines.push((r.clone(), ans.clone()));
            }
            if !fails.is_empty() {
                let h = g.hist.clone();
                for f in fails {
                    g.fails.push((f, h.clone()));
                }
            }
        }
        if verb != "dump" && !verb.starts_with('#') {
            let outcome = if ans.starts_with("ok") || ans == "none" { "ok" } else { "err" };
            self.stat(format!("op.{verb}.issued"));
            self.stat(format!("op.{verb}.{outcome}"));
            if self.phase == "rand" {
                self.stat(format!("rand.{verb}.issued"));
                self.stat(format!("rand.{verb}.{outcome}"));
            }
        }
        ans
    }

    /// state-changing request (followed by `dump`: always in the quick tier, every 10th in the thorough tier)
    fn m(&mut self, r: String) -> String {
        let a = self.req(r);
        self.nmut += 1;
        if !self.quiet_build && !self.ck.w.models.is_empty() && (!self.thorough || self.nmut % 10 == 0) {
            self.req("dump".to_string());
        }
        a
    }

    fn el(&self, i: usize) -> Element {
        self.ck.w.elems[i].clone()
    }
    fn ver(&self, e: &Element) -> AutosarVersion {
        e.min_version().unwrap_or(AutosarVersion::LATEST)
    }

    // ---- handle pools ----
    fn live_ids(&self) -> Vec<usize> {
        let all: Vec<usize> = self.ck.live.iter().flat_map(|l| l.iter().copied()).collect();
        match self.scope {
            Some(s) if self.ck.reach.contains(&s) => {
                let top = self.el(s);
                all.into_iter().filter(|i| is_inside(&self.ck.w.elems[*i], &top)).collect()
            }
            _ => all,
        }
    }
    fn pick_where(&mut self, f: impl Fn(&Element) -> bool) -> Option<usize> {
        let c: Vec<usize> = self.live_ids().into_iter().filter(|i| f(&self.ck.w.elems[*i])).collect();
        if c.is_empty() { None } else { Some(c[self.rng.below(c.len())]) }
    }
    fn pick_live(&mut self) -> usize {
        let l = self.live_ids();
        if l.is_empty() { 0 } else { l[self.rng.below(l.len())] }
    }
    fn pick_stale(&mut self) -> Option<usize> {
        let s = self.ck.stale_ids();
        if s.is_empty() { None } else { Some(s[self.rng.below(s.len())]) }
    }
    /// mostly live, sometimes removed
    fn pick_handle(&mut self) -> usize {
        if self.rng.chance(1, 10) {
            if let Some(s) = self.pick_stale() {
                return s;
            }
        }
        self.pick_live()
    }
    fn uname(&mut self) -> &'static str {
        UNIVERSE[self.rng.below(UNIVERSE.len())]
    }

    // ---- request helpers ----
    fn create(&mut self, p: usize, n: ElementName) -> Option<usize> {
        let a = self.m(format!("create e{p} {}", id16(n)));
        a.strip_prefix("ok e").and_then(|x| x.parse().ok())
    }
    fn named(&mut self, p: usize, n: ElementName, name: &str) -> Option<usize> {
        let a = self.m(format!("named e{p} {} {}", id16(n), hx(name)));
        a.strip_prefix("ok e").and_then(|x| x.split(' ').next()).and_then(|x| x.parse().ok())
    }
    fn cdata(&mut self, x: usize, v: String) -> bool {
        self.m(format!("cdata e{x} {v}")).starts_with("ok")
    }
    fn sval(s: &str) -> String {
        format!("S:{}", hx(s))
    }

    // ---- values ----
    fn ref_path(&mut self) -> String {
        let idents: Vec<String> = self.live_ids().into_iter().filter_map(|i| self.ck.w.elems[i].path().ok()).collect();
        let roll = self.rng.below(100);
        if idents.is_empty() || roll < 20 {
            return ["/nope", "/nope/x", "/zz/a", "/a/zz9"][self.rng.below(4)].to_string();
        }
        let p = idents[self.rng.below(idents.len())].clone();
        if roll < 60 {
            p
        } else if roll < 82 {
            // a sibling path with another name of the universe (may or may not exist: "future" path)
            let cut = p.rfind('/').unwrap_or(0);
            format!("{}/{}", &p[..cut], self.uname())
        } else {
            // the path the element would have below another identifiable element (the text a reference has "ahead of a move")
            let q = idents[self.rng.below(idents.len())].clone();
            let cut = p.rfind('/').unwrap_or(0);
            format!("{}{}", q, &p[cut..])
        }
    }

    fn value_for(&mut self, spec: &CharacterDataSpec, ver: AutosarVersion, valid: bool, is_ref: bool, is_sn: bool) -> String {
        match spec {
            CharacterDataSpec::Enum { items } => {
                let ok: Vec<EnumItem> = items.iter().filter(|(_, m)| m & (ver as u32) != 0).map(|x| x.0).collect();
                if valid && !ok.is_empty() {
                    format!("E:{}", id16(ok[self.rng.below(ok.len())]))
                } else if self.rng.chance(1, 2) {
                    format!("E:{}", self.rng.below(limits().2 as usize))
                } else {
                    Self::sval("abc")
                }
            }
            CharacterDataSpec::Pattern { check_fn, .. } => {
                if valid && is_ref {
                    return Self::sval(&self.ref_path());
                }
                if valid && is_sn {
                    return Self::sval(self.uname());
                }
                let c: Vec<&str> = TEXT_POOL.iter().copied().filter(|t| check_fn(t.as_bytes()) == valid).collect();
                if c.is_empty() || (!valid && self.rng.chance(1, 4)) {
                    if self.rng.chance(1, 2) { "U:7".to_string() } else { format!("E:{}", self.rng.below(limits().2 as usize)) }
                } else {
                    Self::sval(c[self.rng.below(c.len())])
                }
            }
            CharacterDataSpec::String { .. } => {
                if valid || self.rng.chance(1, 2) {
                    Self::sval(TEXT_POOL[self.rng.below(TEXT_POOL.len())])
                } else {
                    format!("U:{}", self.rng.below(100))
                }
            }
            CharacterDataSpec::UnsignedInteger => {
                if valid { format!("U:{}", self.rng.below(1000)) } else { Self::sval("x") }
            }
            CharacterDataSpec::Float => {
                if valid { format!("F:{:016x}", [1.5f64, 0.0, -2.25, 1e10][self.rng.below(4)].to_bits()) } else { Self::sval("x") }
            }
        }
    }

    fn set_value(&mut self, x: usize, valid: bool) -> bool {
        let e = self.el(x);
        let ver = self.ver(&e);
        match e.element_type().chardata_spec() {
            Some(spec) => {
                let v = self.value_for(spec, ver, valid, e.is_reference(), e.element_name() == ElementName::ShortName);
                self.cdata(x, v)
            }
            None => self.cdata(x, Self::sval("abc")),
        }
    }

    // ---- template ----
    fn start(&mut self, nfiles: usize) -> Option<usize> {
        self.phase = "tpl";
        self.m("reset".to_string());
        self.m("newmodel".to_string());
        let mut root = None;
        for j in 0..nfiles {
            let ver: u32 = if self.rng.chance(4, 5) { 0x100000 } else { [0x200u32, 0x1, 0x20000][self.rng.below(3)] };
            let a = self.m(format!("mkfile m0 {} {ver}", hx(&format!("f{j}.arxml"))));
            if let Some(r) = a.split(' ').nth(2).and_then(|w| handle(w, 'e')) {
                root = Some(r);
            }
        }
        root
    }

    fn build(&mut self, parent: usize, specs: &[Spec], shuffle: bool) {
        let mut order: Vec<usize> = (0..specs.len()).collect();
        if shuffle {
            for i in (1..order.len()).rev() {
                let j = self.rng.below(i + 1);
                order.swap(i, j);
            }
        }
        for i in order {
            match &specs[i] {
                Spec::Named(n, name, kids) => {
                    if let Some(x) = self.named(parent, *n, name) {
                        self.build(x, kids, shuffle);
                    }
                }
                Spec::Plain(n, kids) => {
                    if let Some(x) = self.create(parent, *n) {
                        self.build(x, kids, shuffle);
                    }
                }
                Spec::Leaf(n, v) => {
                    if let Some(x) = self.create(parent, *n) {
                        self.cdata(x, Self::sval(v));
                    }
                }
                Spec::Ref(n, text, dest) => {
                    if let Some(x) = self.create(parent, *n) {
                        self.cdata(x, Self::sval(text));
                        self.m(format!("attr e{x} {} E:{}", id16(AttributeName::Dest), id16(*dest)));
                    }
                }
            }
        }
    }

    fn element_extras(&mut self, x: usize, n: ElementName, pending_refs: &mut Vec<usize>) {
        use ElementName::{ApplicationSwComponentType, BaseTypeSize, Category, DataElements, FibexElementRef, FibexElementRefConditional, FibexElements, ISignal, Length, PPortPrototype, Ports, ProvidedInterfaceTref, SenderReceiverInterface, SwBaseType, System, SystemSignalRef, SystemVersion, TypeTref, VariableDataPrototype};
        if self.rng.chance(1, 4) {
            if let Some(c) = self.create(x, Category) {
                self.cdata(c, Self::sval("CAT"));
            }
        }
        match n {
            System => {
                if self.rng.chance(7, 10) {
                    if let Some(fe) = self.create(x, FibexElements) {
                        for _ in 0..1 + self.rng.below(3) {
                            if let Some(r) = self.create(fe, FibexElementRefConditional).and_then(|c| self.create(c, FibexElementRef)) {
                                pending_refs.push(r);
                            }
                        }
                    }
                }
                if self.rng.chance(1, 3) {
                    if let Some(v) = self.create(x, SystemVersion) {
                        self.cdata(v, Self::sval("1.0.0"));
                    }
                }
            }
            SwBaseType => {
                if let Some(v) = self.create(x, BaseTypeSize) {
                    self.cdata(v, Self::sval("8"));
                }
            }
            ISignal => {
                if self.rng.chance(1, 2) {
                    if let Some(v) = self.create(x, Length) {
                        self.cdata(v, Self::sval("0x1F"));
                    }
                }
                if self.rng.chance(1, 2) {
                    if let Some(r) = self.create(x, SystemSignalRef) {
                        pending_refs.push(r);
                    }
                }
            }
            SenderReceiverInterface => {
                if self.rng.chance(7, 10) {
                    if let Some(de) = self.create(x, DataElements) {
                        for _ in 0..1 + self.rng.below(2) {
                            let nm = self.uname();
                            if let Some(r) = self.named(de, VariableDataPrototype, nm).and_then(|v| self.create(v, TypeTref)) {
                                pending_refs.push(r);
                            }
                        }
                    }
                }
            }
            ApplicationSwComponentType => {
                if self.rng.chance(7, 10) {
                    if let Some(ps) = self.create(x, Ports) {
                        let nm = self.uname();
                        if let Some(r) = self.named(ps, PPortPrototype, nm).and_then(|v| self.create(v, ProvidedInterfaceTref)) {
                            pending_refs.push(r);
                        }
                    }
                }
            }
            _ => {}
        }
    }

    fn package_extras(&mut self, pkg: usize) {
        use ElementName::{AdminData, Category, Desc, Language, Tt, L2};
        if self.rng.chance(3, 10) {
            if let Some(c) = self.create(pkg, Category) {
                self.cdata(c, Self::sval("CAT"));
            }
        }
        if self.rng.chance(1, 4) {
            if let Some(l) = self.create(pkg, AdminData).and_then(|a| self.create(a, Language)) {
                self.set_value(l, true);
            }
        }
        if self.rng.chance(1, 2) {
            if let Some(l2) = self.create(pkg, Desc).and_then(|d| self.create(d, L2)) {
                self.m(format!("attr e{l2} {} E:{}", id16(AttributeName::L), id16(EnumItem::En)));
                self.m(format!("instext e{l2} 0 {}", hx("some text")));
                if self.rng.chance(1, 2) {
                    if let Some(tt) = self.create(l2, Tt) {
                        self.cdata(tt, Self::sval("tt"));
                    }
                    let n = self.el(l2).content_item_count();
                    self.m(format!("instext e{l2} {n} {}", hx(" tail")));
                }
            }
        }
    }

    fn elements_of(&mut self, els: usize, count: usize, pending_refs: &mut Vec<usize>) {
        use ElementName::{ApplicationSwComponentType, EcuInstance, ISignal, SenderReceiverInterface, SwBaseType, System};
        const MIX: [ElementName; 6] = [System, EcuInstance, SwBaseType, ISignal, SenderReceiverInterface, ApplicationSwComponentType];
        let mut free: Vec<&str> = UNIVERSE.to_vec();
        for i in 0..count {
            // SYSTEM, ECU-INSTANCE and I-SIGNAL first (so that FIBEX-ELEMENT-REFs have fitting targets), then a random mix
            let n = if i < 3 && count >= 3 { [System, EcuInstance, ISignal][i] } else { MIX[self.rng.below(MIX.len())] };
            let nm = if free.is_empty() || self.rng.chance(1, 8) { self.uname() } else { free.remove(self.rng.below(free.len())) };
            if let Some(x) = self.named(els, n, nm) {
                self.element_extras(x, n, pending_refs);
            }
        }
    }

    /// AR-PACKAGES, packages, elements, references; returns the ids of the top-level packages
    fn template(&mut self, root: usize, small: bool) -> Vec<usize> {
        use ElementName::{ArPackage, ArPackages, Elements};
        let mut pkgs_out = vec![];
        let mut pending_refs: Vec<usize> = vec![];
        let Some(pkgs) = self.create(root, ArPackages) else { return pkgs_out };
        let npk = if small { 2 } else { 2 + self.rng.below(3) };
        let mut names: Vec<&str> = UNIVERSE.to_vec();
        for _ in 0..npk {
            let nm = names.remove(self.rng.below(names.len()));
            let Some(pkg) = self.named(pkgs, ArPackage, nm) else { continue };
            pkgs_out.push(pkg);
            self.package_extras(pkg);
            if self.rng.chance(2, 5) {
                if let Some(sub) = self.create(pkg, ArPackages) {
                    for _ in 0..1 + self.rng.below(2) {
                        let nm = self.uname();
                        if let Some(sp) = self.named(sub, ArPackage, nm) {
                            if self.rng.chance(1, 2) {
                                if let Some(els) = self.create(sp, Elements) {
                                    self.elements_of(els, 1, &mut pending_refs);
                                }
                            }
                        }
                    }
                }
            }
            if self.rng.chance(4, 5) {
                if let Some(els) = self.create(pkg, Elements) {
                    let c = if small { 1 + self.rng.below(3) } else { 2 + self.rng.below(4) };
                    self.elements_of(els, c, &mut pending_refs);
                }
            }
        }
        // references
        for r in pending_refs {
            let e = self.el(r);
            if self.rng.chance(1, 2) {
                // setref to an identifiable element (mostly one whose kind fits the DEST of this reference)
                let fit = if self.rng.chance(4, 5) { self.fitting_target(r) } else { None };
                if let Some(t) = fit.or_else(|| self.pick_where(|x| x.is_identifiable() && x.element_name() != ArPackage)) {
                    self.m(format!("setref e{r} e{t}"));
                    continue;
                }
            }
            let p = self.ref_path();
            self.cdata(r, Self::sval(&p));
            let ver = self.ver(&e);
            if let Some(spec) = e.element_type().find_attribute_spec(AttributeName::Dest) {
                let fit = match e.model().ok().and_then(|m| m.get_element_by_path(&p)) {
                    Some(t) if self.rng.chance(4, 5) => e.element_type().reference_dest_value(&t.element_type()).map(|d| format!("E:{}", id16(d))),
                    _ => None,
                };
                let v = match fit {
                    Some(v) => v,
                    None => self.value_for(spec.spec, ver, true, false, false),
                };
                self.m(format!("attr e{r} {} {v}", id16(AttributeName::Dest)));
            }
        }
        pkgs_out
    }
}

// ---- random operations ----
impl Gen {
    fn parent_of(&self, i: usize) -> Option<usize> {
        self.el(i).parent().ok().flatten().and_then(|p| self.ck.w.ids.get(&p).copied())
    }

    /// path of the nearest identifiable ancestor-or-self ("" if there is none)
    fn prefix_of(e: &Element) -> String {
        let mut cur = Some(e.clone());
        while let Some(c) = cur {
            if c.is_identifiable() {
                return c.path().unwrap_or_default();
            }
            cur = c.parent().ok().flatten();
        }
        String::new()
    }

    /// would moving/copying the non-identifiable `x` below `p` put an identifiable element onto an occupied path?
    fn would_collide(&self, p: &Element, x: &Element, copy: bool) -> bool {
        let Ok(m) = p.model() else { return false };
        let src = x.parent().ok().flatten().map(|q| Self::prefix_of(&q)).unwrap_or_default();
        let dst = Self::prefix_of(p);
        for (_, e) in x.elements_dfs() {
            if let Ok(path) = e.path() {
                if let Some(suffix) = path.strip_prefix(&src) {
                    if m.get_element_by_path(&format!("{dst}{suffix}")).is_some_and(|o| copy || o != e) {
                        return true;
                    }
                }
            }
        }
        false
    }

    /// would moving `x` below `p` leave a descendant of `x` restricted to a file that `p` is not in? (see the report)
    fn split_move(&self, p: &Element, x: &Element) -> bool {
        let Ok((_, dest)) = p.file_membership() else { return false };
        x.elements_dfs().skip(1).any(|(_, e)| matches!(e.file_membership(), Ok((true, set)) if !set.is_subset(&dest)))
    }

    fn pos_suffix(&mut self, p: &Element, n: ElementName) -> String {
        if !self.rng.chance(3, 10) {
            return String::new();
        }
        match p.min_version().and_then(|v| p.calc_element_insert_range(n, v)) {
            Ok((lo, hi)) => {
                if self.rng.chance(4, 5) { format!(" {}", lo + self.rng.below(hi - lo + 1)) } else { format!(" {}", hi + 1 + self.rng.below(3)) }
            }
            Err(_) => format!(" {}", self.rng.below(4)),
        }
    }

    fn op_create(&mut self, named: bool) {
        use ElementName::{AdminData, ArPackage, ArPackages, Category, Desc, Elements, FibexElementRef, FibexElements, Language, LongName, ShortName, System, L2, L4};
        const POOL: [ElementName; 14] = [ArPackages, ArPackage, Elements, Category, ShortName, Desc, L2, System, FibexElements, FibexElementRef, AdminData, Language, LongName, L4];
        let valid = self.rng.chance(4, 5);
        let mut p = if valid { self.pick_where(|e| e.content_type() != ContentType::CharacterData).unwrap_or(0) } else { self.pick_handle() };
        let mut cands: Vec<ElementName> = vec![];
        if valid {
            // look for a parent that has a creatable sub-element of the wanted kind
            for _ in 0..12 {
                cands = self.el(p).list_valid_sub_elements().into_iter().filter(|v| v.is_named == named && v.is_allowed).map(|v| v.element_name).collect();
                if !cands.is_empty() {
                    break;
                }
                p = self.pick_where(|e| e.content_type() != ContentType::CharacterData).unwrap_or(0);
            }
        }
        let pe = self.el(p);
        let n = if valid && !cands.is_empty() { cands[self.rng.below(cands.len())] } else { POOL[self.rng.below(POOL.len())] };
        let pos = self.pos_suffix(&pe, n);
        if named {
            let mut name = if self.rng.chance(9, 10) { self.uname() } else { BAD_NAMES[self.rng.below(BAD_NAMES.len())] };
            if self.rng.chance(3, 4) {
                // prefer a name that is still free below this parent
                let prefix = Self::prefix_of(&pe);
                for _ in 0..4 {
                    if pe.model().ok().and_then(|m| m.get_element_by_path(&format!("{prefix}/{name}"))).is_none() {
                        break;
                    }
                    name = self.uname();
                }
            }
            self.m(format!("named e{p} {} {}{pos}", id16(n), hx(name)));
        } else {
            self.m(format!("create e{p} {}{pos}", id16(n)));
        }
    }

    fn op_remove(&mut self) {
        if self.rng.chance(17, 20) {
            let sn_ok = self.rng.chance(1, 10);
            if let Some(c) = self.pick_where(|e| matches!(e.parent(), Ok(Some(_))) && (sn_ok || e.element_name() != ElementName::ShortName)) {
                if let Some(p) = self.parent_of(c) {
                    self.m(format!("remove e{p} e{c}"));
                    return;
                }
            }
        }
        let (mut p, c) = (self.pick_handle(), self.pick_handle());
        if self.allow_rmself && self.rng.chance(1, 3) {
            p = c;
        }
        if p == c && !self.allow_rmself {
            // `remove e<x> e<x>` never returns (see the report); generated only in flagged histories
            p = self.parent_of(c).unwrap_or(0);
            if p == c {
                return;
            }
        }
        self.m(format!("remove e{p} e{c}"));
    }

    fn rename_hits_dangling(&self, x: &Element) -> bool {
        let Ok(p) = x.path() else { return false };
        let Ok(m) = x.model() else { return false };
        let pre = format!("{p}/");
        m.verif_reference_origins().iter().any(|(t, _)| t.starts_with(&pre) && m.get_element_by_path(t).is_none())
    }

    fn op_rename(&mut self) {
        let x = if self.rng.chance(17, 20) { self.pick_where(|e| e.is_identifiable()).unwrap_or(0) } else { self.pick_handle() };
        if !self.allow_dangling_rename && self.rename_hits_dangling(&self.el(x)) {
            self.stat("gen.rename_avoided_dangling_prefix".to_string());
            return;
        }
        let mut name = if self.rng.chance(9, 10) { self.uname() } else { BAD_NAMES[self.rng.below(BAD_NAMES.len())] };
        if self.rng.chance(3, 4) {
            // prefer a name that is still free next to the element
            let xe = self.el(x);
            let prefix = xe.parent().ok().flatten().map(|p| Self::prefix_of(&p)).unwrap_or_default();
            for _ in 0..4 {
                if xe.model().ok().and_then(|m| m.get_element_by_path(&format!("{prefix}/{name}"))).is_none() {
                    break;
                }
                name = self.uname();
            }
        }
        self.m(format!("rename e{x} {}", hx(name)));
    }

    fn op_cdata(&mut self) {
        let valid = self.rng.chance(17, 20);
        let allow_mixed = self.allow_mixed;
        let x = if valid {
            self.pick_where(|e| match e.content_type() {
                ContentType::CharacterData => true,
                ContentType::Mixed => allow_mixed || e.sub_elements().next().is_none(),
                _ => false,
            })
            .unwrap_or(0)
        } else {
            let allow = self.allow_mixed;
            let h = self.pick_handle();
            let e = self.el(h);
            if !allow && e.content_type() == ContentType::Mixed && e.sub_elements().next().is_some() {
                return;
            }
            h
        };
        let good = self.rng.chance(17, 20);
        self.set_value(x, good);
    }

    fn op_rmcdata(&mut self) {
        let x = if self.rng.chance(4, 5) { self.pick_where(|e| e.content_type() == ContentType::CharacterData && e.character_data().is_some() && e.element_name() != ElementName::ShortName).unwrap_or(0) } else { self.pick_handle() };
        self.m(format!("rmcdata e{x}"));
    }

    fn op_instext(&mut self) {
        let x = if self.rng.chance(17, 20) { self.pick_where(|e| e.content_type() == ContentType::Mixed).unwrap_or(0) } else { self.pick_handle() };
        let n = self.el(x).content_item_count();
        let pos = if self.rng.chance(17, 20) { self.rng.below(n + 1) } else { n + 1 + self.rng.below(3) };
        let t = TEXT_POOL[self.rng.below(TEXT_POOL.len())];
        self.m(format!("instext e{x} {pos} {}", hx(t)));
    }

    fn op_rmtext(&mut self) {
        let x = if self.rng.chance(17, 20) { self.pick_where(|e| e.content_type() == ContentType::Mixed && e.content_item_count() > 0).unwrap_or(0) } else { self.pick_handle() };
        let e = self.el(x);
        let texts: Vec<usize> = e.content().enumerate().filter(|(_, c)| matches!(c, ElementContent::CharacterData(_))).map(|x| x.0).collect();
        let pos = if !texts.is_empty() && self.rng.chance(4, 5) { texts[self.rng.below(texts.len())] } else { self.rng.below(e.content_item_count() + 2) };
        self.m(format!("rmtext e{x} {pos}"));
    }

    /// an identifiable element that `x` (a reference element) can point to with a valid DEST
    fn fitting_target(&mut self, x: usize) -> Option<usize> {
        let xe = self.el(x);
        let dests: Vec<EnumItem> = match xe.element_type().find_attribute_spec(AttributeName::Dest).map(|s| s.spec) {
            Some(CharacterDataSpec::Enum { items }) => items.iter().map(|i| i.0).collect(),
            _ => vec![],
        };
        let saved = self.scope.take();
        let r = self.pick_where(|e| {
            e.is_identifiable()
                && match e.element_name().to_str().parse::<EnumItem>() {
                    Ok(d) => dests.contains(&d),
                    Err(_) => xe.element_type().reference_dest_value(&e.element_type()).is_some_and(|d| dests.contains(&d)),
                }
        });
        self.scope = saved;
        r
    }

    fn op_setref(&mut self) {
        let x = if self.rng.chance(17, 20) { self.pick_where(|e| e.is_reference()).unwrap_or(0) } else { self.pick_handle() };
        let fitting = if self.rng.chance(3, 4) { self.fitting_target(x) } else { None };
        let t = match fitting {
            Some(t) => t,
            None => if self.rng.chance(17, 20) { self.pick_where(|e| e.is_identifiable()).unwrap_or(0) } else { self.pick_handle() },
        };
        self.m(format!("setref e{x} e{t}"));
    }

    fn op_attr(&mut self, as_string: bool) {
        let x = if self.rng.chance(1, 2) { self.pick_where(|e| e.is_reference() || e.content_type() == ContentType::Mixed).unwrap_or(0) } else { self.pick_handle() };
        let e = self.el(x);
        if matches!(e.parent(), Ok(None)) && !self.allow_root_attr {
            // xmlns / xsi:schemaLocation of <AUTOSAR>: edited only in flagged histories (see the report)
            return;
        }
        let ver = self.ver(&e);
        let specs: Vec<(AttributeName, &'static CharacterDataSpec)> = e.element_type().attribute_spec_iter().filter(|(_, s, _)| !(as_string && matches!(s, CharacterDataSpec::Float))).map(|(a, s, _)| (a, s)).collect();
        if specs.is_empty() || !self.rng.chance(17, 20) {
            let a = self.rng.below(limits().1 as usize);
            let v = if as_string { hx("abc") } else { Self::sval("abc") };
            self.m(format!("{} e{x} {a} {v}", if as_string { "attrs" } else { "attr" }));
            return;
        }
        let (a, spec) = specs[self.rng.below(specs.len())];
        let good = self.rng.chance(17, 20);
        if as_string {
            let s: String = match spec {
                CharacterDataSpec::Enum { items } => {
                    let ok: Vec<EnumItem> = items.iter().filter(|(_, m)| m & (ver as u32) != 0).map(|x| x.0).collect();
                    if good && !ok.is_empty() { ok[self.rng.below(ok.len())].to_str().to_string() } else { "NO-SUCH-ITEM".to_string() }
                }
                CharacterDataSpec::Pattern { check_fn, .. } => {
                    let c: Vec<&str> = TEXT_POOL.iter().copied().filter(|t| check_fn(t.as_bytes()) == good).collect();
                    if c.is_empty() { "abc".to_string() } else { c[self.rng.below(c.len())].to_string() }
                }
                CharacterDataSpec::UnsignedInteger => if good { "12".to_string() } else { "x".to_string() },
                _ => TEXT_POOL[self.rng.below(TEXT_POOL.len())].to_string(),
            };
            self.m(format!("attrs e{x} {} {}", id16(a), hx(&s)));
        } else {
            let v = self.value_for(spec, ver, good, false, false);
            self.m(format!("attr e{x} {} {v}", id16(a)));
        }
    }

    fn op_rmattr(&mut self) {
        let x = if self.rng.chance(4, 5) { self.pick_where(|e| e.attributes().next().is_some()).unwrap_or(0) } else { self.pick_handle() };
        if matches!(self.el(x).parent(), Ok(None)) && !self.allow_root_attr {
            return;
        }
        let have: Vec<AttributeName> = self.el(x).attributes().map(|a| a.attrname).collect();
        let a = if !have.is_empty() && self.rng.chance(4, 5) { id16(have[self.rng.below(have.len())]) as usize } else { self.rng.below(limits().1 as usize) };
        self.m(format!("rmattr e{x} {a}"));
    }

    fn op_comment(&mut self) {
        let x = self.pick_handle();
        if matches!(self.el(x).parent(), Ok(None)) && !self.allow_root_attr {
            return;
        }
        let t = ["-", "note", "a--b", "x -- y --", "c"][self.rng.below(5)];
        self.m(format!("comment e{x} {}", if t == "-" { "-".to_string() } else { hx(t) }));
    }

    /// move (copy = false) or copy; `dest_pool`: ids that may serve as destination (None = all live)
    fn op_move_copy(&mut self, copy: bool) {
        let verb = if copy { "copy" } else { "move" };
        if self.rng.chance(17, 20) {
            for _ in 0..4 {
                let Some(x) = self.pick_where(|e| matches!(e.parent(), Ok(Some(_))) && e.element_name() != ElementName::ShortName) else { break };
                let xe = self.el(x);
                let name = xe.element_name();
                let xp = xe.parent().ok().flatten();
                let (allow_anc, allow_col, allow_split) = (self.allow_ancestor, self.allow_collision, self.allow_split_move);
                let saved = self.scope.take();
                // destinations: anywhere in the world (the scope only restricts the source)
                let dests: Vec<usize> = self.live_ids().into_iter().filter(|i| {
                    let p = &self.ck.w.elems[*i];
                    if p == &xe || is_inside(p, &xe) {
                        return false;
                    }
                    let same_parent = xp.as_ref() == Some(p);
                    if !copy && !same_parent && !allow_anc && xp.as_ref().is_some_and(|q| is_inside(q, p)) {
                        return false;
                    }
                    if !copy && !same_parent && p.min_version().ok() != xe.min_version().ok() {
                        return false;
                    }
                    let fits = p.min_version().and_then(|v| p.calc_element_insert_range(name, v)).is_ok();
                    if !fits {
                        return false;
                    }
                    if !xe.is_identifiable() && !allow_col && (copy || !same_parent) && self.would_collide(p, &xe, copy) {
                        return false;
                    }
                    if !copy && !same_parent && !allow_split && self.split_move(p, &xe) {
                        return false;
                    }
                    true
                }).collect();
                self.scope = saved;
                if dests.is_empty() {
                    continue;
                }
                let p = dests[self.rng.below(dests.len())];
                let pos = self.pos_suffix(&self.el(p), name);
                self.m(format!("{verb} e{p} e{x}{pos}"));
                return;
            }
        }
        // deliberately invalid: the element itself, a descendant as destination, stale handles, wrong kinds
        let x = self.pick_handle();
        let xe = self.el(x);
        let p = match self.rng.below(4) {
            0 => x,
            1 => {
                let sub: Vec<usize> = xe.elements_dfs().skip(1).filter_map(|(_, e)| self.ck.w.ids.get(&e).copied()).collect();
                if sub.is_empty() { self.pick_handle() } else { sub[self.rng.below(sub.len())] }
            }
            _ => self.pick_handle(),
        };
        let pe = self.el(p);
        if !copy && !self.allow_ancestor {
            if let Ok(Some(xp)) = xe.parent() {
                if xp != pe && is_inside(&xp, &pe) {
                    return;
                }
            }
        }
        if !xe.is_identifiable() && !self.allow_collision && self.would_collide(&pe, &xe, copy) {
            return;
        }
        if !copy && !self.allow_split_move && self.split_move(&pe, &xe) {
            return;
        }
        let pos = if self.rng.chance(1, 4) { format!(" {}", self.rng.below(5)) } else { String::new() };
        self.m(format!("{verb} e{p} e{x}{pos}"));
    }

    fn op_sort(&mut self) {
        let x = if self.rng.chance(1, 5) { self.ck.w.root_id[0].unwrap_or(0) } else { self.pick_where(|e| e.content_type() == ContentType::Elements).unwrap_or(0) };
        if self.rng.chance(1, 8) {
            self.m("sortm m0".to_string());
            self.m("sortm m0".to_string());
            return;
        }
        self.m(format!("sort e{x}"));
        if self.rng.chance(1, 2) {
            self.m(format!("sort e{x}"));
        }
    }

    fn op_query(&mut self) {
        let x = self.pick_handle();
        let k = self.rng.below(self.ck.w.models.len().max(1));
        if self.ck.on("C03") && self.rng.chance(1, 2) {
            // C03: the iterators on a second handle as well (element-scoped with a depth limit, file-scoped)
            let y = self.pick_handle();
            let d = [0usize, 1, 2, 3, 4][self.rng.below(5)];
            self.req(format!("dfs e{y} {d}"));
            let nf = self.ck.w.files.len();
            if nf > 0 {
                let f = self.rng.below(nf);
                let d2 = [0usize, 2, 3, 5][self.rng.below(4)];
                self.req(format!("dfsf f{f} {d2}"));
            }
        }
        match self.rng.below(12) {
            9 => {
                let d = [0usize, 0, 1, 2, 3, 5][self.rng.below(6)];
                self.req(format!("dfs e{x} {d}"))
            }
            10 => {
                let nf = self.ck.w.files.len();
                if nf == 0 {
                    self.req(format!("subs e{x}"))
                } else {
                    let d = [0usize, 0, 1, 2, 3, 4, 6][self.rng.below(7)];
                    let f = self.rng.below(nf);
                    self.req(format!("dfsf f{f} {d}"))
                }
            }
            11 => self.req(format!("subs e{x}")),
            0 => self.req(format!("path e{x}")),
            1 => self.req(format!("parent e{x}")),
            2 => self.req(format!("pos e{x}")),
            3 => {
                let r = if self.rng.chance(4, 5) { self.pick_where(|e| e.is_reference()).unwrap_or(x) } else { x };
                self.req(format!("target e{r}"))
            }
            4 => {
                let p = self.ref_path();
                self.req(format!("lookup m{k} {}", hx(&p)))
            }
            5 => {
                let p = self.ref_path();
                self.req(format!("refs m{k} {}", hx(&p)))
            }
            6 => self.req(format!("checkrefs m{k}")),
            7 => {
                let valid: Vec<ElementName> = self.el(x).list_valid_sub_elements().into_iter().map(|v| v.element_name).collect();
                let n = if !valid.is_empty() && self.rng.chance(4, 5) { valid[self.rng.below(valid.len())] } else { [ElementName::ArPackage, ElementName::Elements, ElementName::Category, ElementName::System, ElementName::ShortName][self.rng.below(5)] };
                self.req(format!("range e{x} {}", id16(n)))
            }
            _ => self.req(format!("valid e{x}")),
        };
    }

    // ---- file set operations (kind `files`) ----
    fn model_files(&self, k: usize) -> Vec<usize> {
        self.ck.w.models[k].files().filter_map(|f| self.ck.w.files.iter().position(|x| *x == f)).collect()
    }
    fn op_fileset(&mut self, add: bool) {
        let x = if self.rng.chance(17, 20) {
            // a SHORT-NAME restricted to some files only is generated in flagged histories only (see the report)
            let sn = self.allow_split_move;
            self.pick_where(|e| (sn || e.element_name() != ElementName::ShortName) && e.parent().ok().flatten().is_some_and(|p| p.element_type().splittable() != 0)).unwrap_or(0)
        } else {
            self.pick_handle()
        };
        let mf = self.model_files(0);
        let all = self.ck.w.files.len();
        let f = if !mf.is_empty() && (!self.allow_stale_file || self.rng.chance(4, 5)) { mf[self.rng.below(mf.len())] } else { self.rng.below(all.max(1)) };
        // splitting below an identifiable parent gives its SHORT-NAME a restricted file set of its own (see the report):
        // only in flagged histories
        if !self.allow_split_move && (self.el(x).element_name() == ElementName::ShortName || self.el(x).parent().ok().flatten().is_some_and(|p| p.is_identifiable())) {
            return;
        }
        if !add && !self.allow_last_file {
            // removing the root from its last file empties the model; only in flagged histories
            let e = self.el(x);
            if matches!(e.parent(), Ok(None)) {
                return;
            }
        }
        self.m(format!("{} e{x} f{f}", if add { "addfile" } else { "rmfromfile" }));
    }
    fn op_rmfile(&mut self) {
        let mf = self.model_files(0);
        if mf.len() <= 1 && !self.allow_last_file {
            return;
        }
        let all = self.ck.w.files.len();
        let f = if !mf.is_empty() && (!self.allow_stale_file || self.rng.chance(4, 5)) { mf[self.rng.below(mf.len())] } else { self.rng.below(all.max(1)) };
        self.m(format!("rmfile m0 f{f}"));
    }
    /// a document derived from one file of the model (some subtrees deleted, some elements added, sometimes relabelled with
    /// another version) is loaded into the model as a further file: overlapping partial views, merged by load_buffer
    fn op_load(&mut self) {
        let mf = self.model_files(0);
        if mf.is_empty() || !self.allow_load {
            return;
        }
        // adjacent (or empty) character items in MIXED content are written as one run and read back as one item: the document then
        // differs from the model in content, unkeyed siblings (two L-2 of one DESC) sort differently on the two sides and are merged
        // by position (known finding c09:unkeyed-sibling-positional-merge) - not what this operation is after (false alarm F15)
        {
            let root = self.ck.w.models[0].root_element();
            let split_text = root.elements_dfs().any(|(_, e)| {
                if e.content_type() != ContentType::Mixed {
                    return false;
                }
                let mut prev_text = false;
                for c in e.content() {
                    match c {
                        ElementContent::CharacterData(cd) => {
                            if prev_text || cd.string_value().is_some_and(|t| t.is_empty()) {
                                return true;
                            }
                            prev_text = true;
                        }
                        ElementContent::Element(_) => prev_text = false,
                    }
                }
                false
            });
            if split_text {
                *self.stats.entry("load.skipped_split_text".to_string()).or_insert(0) += 1;
                return;
            }
        }
        // both sides in canonical order: the positional merge of load_buffer duplicates shared elements when sibling kinds
        // interleave differently (known finding c09:out-of-order-sibling-duplicated), which is not what this operation is after
        let presort = true;
        if presort {
            self.m("sortm m0".to_string());
        }
        // the text is written for one of the files: `serialize` sets xsi:schemaLocation of the shared root element to the
        // version of that file - as a request of its own, so that the Lean model follows
        let fid = mf[self.rng.below(mf.len())];
        self.m(format!("ser f{fid}"));
        let root = self.ck.w.models[0].root_element();
        let ndel = self.rng.below(4);
        let nadd = self.rng.below(3);
        let picks: Vec<usize> = (0..8).map(|_| self.rng.below(1 << 20)).collect();
        let relabel = self.rng.chance(1, 4);
        let newver = crate::specwalk::ALL_VERSIONS[self.rng.below(crate::specwalk::ALL_VERSIONS.len())];
        let made = catch_unwind(AssertUnwindSafe(|| -> Option<String> {
            // the whole model as one document (not the view of one file: unkeyed siblings restricted to different files would
            // be merged by position, known finding c09:unkeyed-sibling-positional-merge); partial views arise by the deletions
            let text = format!("<?xml version=\"1.0\" encoding=\"utf-8\"?>\n{}", root.serialize());
            let tmp = AutosarModel::new();
            let (tf, _) = tmp.load_buffer(text.as_bytes(), "t.arxml", false).ok()?;
            let mut pi = 0;
            for _ in 0..ndel {
                // candidates: packages, package elements and the containers ELEMENTS / AR-PACKAGES themselves (a partial view
                // that lacks a whole container below a package is accepted by load_buffer)
                let is_cont = |e: &Element| e.element_name() == ElementName::Elements || e.element_name() == ElementName::ArPackages;
                let all: Vec<Element> = tmp
                    .elements_dfs()
                    .map(|(_, e)| e)
                    .filter(|e| match e.parent().ok().flatten() {
                        Some(p) => (is_cont(&p) && e.is_identifiable()) || (is_cont(e) && p.element_name() == ElementName::ArPackage),
                        None => false,
                    })
                    .collect();
                if all.len() < 2 {
                    break;
                }
                let e = all[picks[pi % 8] % all.len()].clone();
                pi += 1;
                if let Ok(Some(p)) = e.parent() {
                    let _ = p.remove_sub_element(e);
                }
            }
            for _ in 0..nadd {
                let conts: Vec<Element> = tmp.elements_dfs().map(|(_, e)| e).filter(|e| e.element_name() == ElementName::Elements || e.element_name() == ElementName::ArPackages).collect();
                if conts.is_empty() {
                    break;
                }
                let c = conts[picks[pi % 8] % conts.len()].clone();
                pi += 1;
                let valid: Vec<ElementName> = c.list_valid_sub_elements().into_iter().filter(|v| v.is_named && v.is_allowed).map(|v| v.element_name).collect();
                if valid.is_empty() {
                    continue;
                }
                let n = valid[picks[pi % 8] % valid.len()];
                let nm = UNIVERSE[picks[(pi + 1) % 8] % UNIVERSE.len()];
                pi += 1;
                let _ = c.create_named_sub_element(n, nm);
            }
            if presort {
                tmp.sort();
            }
            let mut out = tf.serialize().ok()?;
            if relabel {
                out = out.replace(tf.version().filename(), newver.filename());
            }
            Some(out)
        }));
        let Ok(Some(mut text)) = made else { return };
        let j = self.ck.w.files.len();
        let mut strict = !relabel && self.rng.chance(1, 2);
        if self.allow_bad_names && self.rng.chance(2, 3) {
            // one item name of the document (and the path segments that use it) becomes a text that is no identifier: a lenient
            // load accepts it with a warning; the operations that follow meet paths that no value check accepts
            let present: Vec<&str> = UNIVERSE.iter().copied().filter(|n| text.contains(&format!("<SHORT-NAME>{n}</SHORT-NAME>"))).collect();
            if !present.is_empty() {
                let n = present[self.rng.below(present.len())];
                let bad = if self.rng.chance(1, 2) { format!("1{n}") } else { format!("{n}-x") };
                // (the replacement must not collide with a name that is already in the document: two elements with one path in one
                // document are accepted by the loader - known finding c04:document-with-duplicate-paths-accepted - and not wanted here)
                if text.contains(&format!("<SHORT-NAME>{bad}</SHORT-NAME>")) {
                    return;
                }
                text = text
                    .replace(&format!("<SHORT-NAME>{n}</SHORT-NAME>"), &format!("<SHORT-NAME>{bad}</SHORT-NAME>"))
                    .replace(&format!("/{n}/"), &format!("/{bad}/"))
                    .replace(&format!("/{n}<"), &format!("/{bad}<"));
                strict = false;
                // the document was sorted BEFORE the name changed: sort it again with the new name (a lenient load accepts it), so
                // that both sides of the merge list their siblings in one order (otherwise the merge duplicates shared elements:
                // known finding c09:out-of-order-sibling-duplicated, not what this operation is after - false alarm F15)
                let resorted = catch_unwind(AssertUnwindSafe(|| -> Option<String> {
                    let tmp2 = AutosarModel::new();
                    let (f2, _) = tmp2.load_buffer(text.as_bytes(), "t2.arxml", false).ok()?;
                    tmp2.sort();
                    f2.serialize().ok()
                }));
                match resorted {
                    Ok(Some(t)) => text = t,
                    _ => return,
                }
                *self.stats.entry("load.bad_name".to_string()).or_insert(0) += 1;
            }
        }
        let a = self.m(format!("load m0 {} {} {}", hx(&format!("l{j}.arxml")), strict as u8, hx(&text)));
        if !strict && a.starts_with("ok") && j < self.ck.w.files.len() {
            // a lenient load may have accepted content that the label of the document does not permit
            self.diagonal_version_requests(j, 4, 2);
        }
    }
    fn op_mkfile(&mut self) {
        let j = self.ck.w.files.len();
        let name = if self.rng.chance(9, 10) { format!("f{j}.arxml") } else { "f0.arxml".to_string() };
        let ver: u32 = if self.rng.chance(4, 5) { 0x100000 } else { 0x20000 };
        self.m(format!("mkfile m0 {} {ver}", hx(&name)));
    }

    /// one random operation according to the weights of the history kind
    fn random_op(&mut self) {
        // (weight, op)
        let table: &[(u32, u8)] = match self.kind {
            Kind::Basic => &[(10, 0), (12, 1), (4, 2), (10, 3), (9, 4), (3, 5), (4, 6), (3, 7), (8, 8), (5, 9), (3, 10), (3, 11), (10, 12), (8, 13), (3, 14), (5, 16)],
            Kind::Sort => &[(8, 0), (12, 1), (3, 2), (10, 3), (8, 4), (2, 5), (2, 6), (2, 7), (5, 8), (4, 9), (2, 10), (2, 11), (8, 12), (6, 13), (4, 14), (16, 15), (6, 16)],
            Kind::Copy => &[(8, 0), (10, 1), (3, 2), (10, 3), (8, 4), (2, 5), (3, 6), (2, 7), (6, 8), (4, 9), (2, 10), (2, 11), (6, 12), (26, 13), (3, 14), (5, 16)],
            Kind::Files => &[(8, 0), (12, 1), (4, 2), (6, 3), (5, 4), (2, 5), (2, 6), (1, 7), (4, 8), (3, 9), (1, 10), (2, 11), (8, 12), (5, 13), (2, 14), (4, 16), (14, 17), (9, 18), (4, 19), (4, 20), (7, 21)],
        };
        let total: u32 = table.iter().map(|x| x.0).sum();
        let mut r = self.rng.below(total as usize) as u32;
        let mut op = 0u8;
        for (w, o) in table {
            if r < *w {
                op = *o;
                break;
            }
            r -= w;
        }
        match op {
            0 => self.op_create(false),
            1 => self.op_create(true),
            2 => self.op_remove(),
            3 => self.op_rename(),
            4 => self.op_cdata(),
            5 => self.op_rmcdata(),
            6 => self.op_instext(),
            7 => self.op_rmtext(),
            8 => self.op_setref(),
            9 => self.op_attr(false),
            10 => self.op_attr(true),
            11 => self.op_rmattr(),
            12 => self.op_move_copy(false),
            13 => self.op_move_copy(true),
            14 => self.op_comment(),
            15 => self.op_sort(),
            16 => self.op_query(),
            17 => self.op_fileset(true),
            18 => self.op_fileset(false),
            19 => self.op_rmfile(),
            21 => self.op_load(),
            _ => self.op_mkfile(),
        }
    }

    fn final_queries(&mut self) {
        self.phase = "fin";
        self.scope = None;
        let live = self.live_ids();
        let stale = self.ck.stale_ids();
        let mut sample: Vec<usize> = (0..8.min(live.len())).map(|_| live[self.rng.below(live.len())]).collect();
        let idents: Vec<usize> = live.iter().copied().filter(|i| self.ck.w.elems[*i].is_identifiable()).collect();
        sample.extend((0..8.min(idents.len())).map(|_| idents[self.rng.below(idents.len())]));
        sample.extend(stale.iter().take(3));
        for x in &sample {
            self.req(format!("path e{x}"));
            self.req(format!("parent e{x}"));
            self.req(format!("pos e{x}"));
        }
        let refs: Vec<usize> = live.iter().copied().filter(|i| self.ck.w.elems[*i].is_reference()).collect();
        for r in refs.iter().take(40) {
            self.req(format!("target e{r}"));
        }
        for k in 0..self.ck.w.models.len() {
            let mut paths: Vec<String> = self.ck.live[k].iter().filter_map(|i| self.ck.w.elems[*i].path().ok()).take(40).collect();
            paths.extend(self.ck.live[k].iter().filter(|i| self.ck.w.elems[**i].is_reference()).filter_map(|i| ref_text(&self.ck.w.elems[*i])).take(40));
            paths.extend(["/a", "/a1", "/a/a1", "/pkg1/pkg10", "/b/a2"].iter().map(|s| s.to_string()));
            paths.sort();
            paths.dedup();
            for p in paths {
                self.req(format!("lookup m{k} {}", hx(&p)));
                self.req(format!("refs m{k} {}", hx(&p)));
            }
            self.req(format!("checkrefs m{k}"));
        }
        for _ in 0..3 {
            if let Some(p) = self.pick_where(|e| e.content_type() != ContentType::CharacterData) {
                let valid: Vec<ElementName> = self.el(p).list_valid_sub_elements().into_iter().map(|v| v.element_name).collect();
                let n = if !valid.is_empty() && self.rng.chance(4, 5) { valid[self.rng.below(valid.len())] } else { [ElementName::ArPackage, ElementName::Elements, ElementName::Category, ElementName::ShortName][self.rng.below(4)] };
                self.req(format!("range e{p} {}", id16(n)));
                self.req(format!("valid e{p}"));
            }
        }
        // the text of every file (C01): `serialize` also rewrites the schema location of the root, hence a state change
        for k in 0..self.ck.w.models.len() {
            for f in self.model_files(k) {
                self.m(format!("ser f{f}"));
            }
        }
        // version compatibility (C17): every file against a few target versions; sometimes the version is changed
        for k in 0..self.ck.w.models.len() {
            for f in self.model_files(k) {
                self.diagonal_version_requests(f, 3, 4);
                for _ in 0..3 {
                    let bit = if self.rng.chance(1, 3) { [0usize, 1, 2, 5, 9][self.rng.below(5)] } else { self.rng.below(21) };
                    self.req(format!("compat f{f} {}", 1u32 << bit));
                    if self.rng.chance(1, 6) {
                        self.m(format!("setver f{f} {}", 1u32 << bit));
                    }
                }
            }
        }
        self.req("dump".to_string());
    }

    /// C17 on the diagonal of the version pairs: `compat` / `setver` with the version the file already has.  A file that was
    /// loaded leniently may hold content that its own label does not permit; then the check lists something for the file's
    /// own version and `setver` to that version must fail like any other.  Always issued for such files, for the others with
    /// probability 1/`c` (`compat`) and 1/(`c`*`s`) (`setver`).
    fn diagonal_version_requests(&mut self, f: usize, c: u64, s: u64) {
        let fo = self.ck.w.files[f].clone();
        let own = fo.version() as u32;
        let dirty = quiet(|| !fo.check_version_compatibility(fo.version()).0.is_empty()).unwrap_or(false);
        self.stat(format!("c17.files_{}_with_own_version", if dirty { "incompatible" } else { "compatible" }));
        if dirty || self.rng.chance(1, c) {
            self.req(format!("compat f{f} {own}"));
            self.stat(format!("c17.compat_own_version.{}", if dirty { "incompatible_file" } else { "compatible_file" }));
            if dirty || self.rng.chance(1, s) {
                let a = self.m(format!("setver f{f} {own}"));
                self.stat(format!("c17.setver_own_version.{}.{}", if dirty { "incompatible_file" } else { "compatible_file" }, if a.starts_with("ok") { "ok" } else { "err" }));
            }
        }
    }

    fn nrandom(&mut self) -> usize {
        if self.thorough && self.rng.chance(1, 4) { 60 + self.rng.below(141) } else { 20 + self.rng.below(41) }
    }

    // ---- the four history kinds ----
    fn history(&mut self) {
        use ElementName::{ArPackage, ArPackages, Elements, ShortName};
        let nfiles = match self.kind {
            Kind::Files => 2 + self.rng.below(3),
            _ => 1 + self.rng.below(5) / 4 + self.rng.below(4) / 3,
        }
        .clamp(1, 4);
        let nfiles = if self.kind != Kind::Files { nfiles.min(2) } else { nfiles };
        let Some(root) = self.start(nfiles) else { return };
        let small = self.kind != Kind::Basic;
        let pkgs = self.template(root, small);
        match self.kind {
            Kind::Basic => {}
            Kind::Files => {
                // distribute some packages / elements over the files before the random part
                for _ in 0..2 + self.rng.below(4) {
                    let add = self.rng.chance(1, 2);
                    self.op_fileset(add);
                }
            }
            Kind::Copy => {
                self.m("newmodel".to_string());
                let other: u32 = [0x20000u32, 0x200, 0x1, 0x100000][self.rng.below(4)];
                let a = self.m(format!("mkfile m1 {} {other}", hx("g0.arxml")));
                if let Some(r1) = a.split(' ').nth(2).and_then(|w| handle(w, 'e')) {
                    if let Some(p) = self.create(r1, ArPackages).and_then(|ps| self.named(ps, ArPackage, "a")) {
                        self.create(p, Elements);
                        if self.rng.chance(1, 2) {
                            self.create(p, ArPackages);
                        }
                    }
                }
                if self.rng.chance(2, 5) {
                    self.req("#dup m0".to_string());
                }
            }
            Kind::Sort => self.twins(root, &pkgs),
        }
        self.phase = "rand";
        let n = self.nrandom();
        let mut i = 0;
        while i < n {
            i += 1;
            let before = self.ck.w.elems.len();
            let was_copy_ok = {
                let hist_len = self.sh.lock().unwrap().hist.len();
                self.random_op();
                let g = self.sh.lock().unwrap();
                g.hist[hist_len..].iter().find(|(r, a)| r.starts_with("copy ") && a.starts_with("ok")).map(|(r, a)| (r.clone(), a.clone()))
            };
            if self.kind == Kind::Copy {
                if let Some((r, a)) = was_copy_ok {
                    // a burst of edits inside the copy or inside the source (C13 independence)
                    let cp = a.split(' ').nth(1).and_then(|w| handle(w, 'e'));
                    let src = r.split(' ').nth(2).and_then(|w| handle(w, 'e'));
                    let _ = before;
                    self.scope = if self.rng.chance(3, 5) { cp } else { src };
                    for _ in 0..2 + self.rng.below(4) {
                        i += 1;
                        match self.rng.below(9) {
                            0 | 1 => self.op_rename(),
                            2 | 3 => self.op_cdata(),
                            4 => self.op_create(false),
                            5 => self.op_create(true),
                            6 => self.op_comment(),
                            7 => self.op_attr(false),
                            _ => {
                                // remove something strictly below the scope
                                let top = self.scope;
                                if let Some(c) = self.pick_where(|e| e.element_name() != ShortName && matches!(e.parent(), Ok(Some(_)))) {
                                    if Some(c) != top {
                                        if let Some(p) = self.parent_of(c) {
                                            self.m(format!("remove e{p} e{c}"));
                                        }
                                    }
                                }
                            }
                        }
                    }
                    self.scope = None;
                }
            }
        }
        if self.kind == Kind::Copy && self.rng.chance(1, 2) {
            self.req("#dup m0".to_string());
            if self.rng.chance(2, 3) {
                let k = self.rng.below(self.ck.w.models.len());
                self.m(format!("dup m{k}"));
                for _ in 0..4 {
                    self.random_op();
                }
            }
            // a few edits of the original after duplicating
            for _ in 0..3 {
                self.random_op();
            }
        }
        self.final_queries();
        // statistics of the final state
        let live: usize = self.ck.live.iter().map(|l| l.len()).sum();
        let refs: Vec<Element> = self.ck.live.iter().flat_map(|l| l.iter()).map(|i| self.ck.w.elems[*i].clone()).filter(|e| e.is_reference()).collect();
        let dangling = refs.iter().filter(|e| ref_text(e).is_some() && e.get_reference_target().is_err()).count();
        for (k, v) in self.ck.counts.clone() {
            *self.stats.entry(k.to_string()).or_insert(0) += v;
        }
        *self.stats.entry("final.live_elements".to_string()).or_insert(0) += live as u64;
        *self.stats.entry("final.stale_handles".to_string()).or_insert(0) += self.ck.stale_ids().len() as u64;
        *self.stats.entry("final.references".to_string()).or_insert(0) += refs.len() as u64;
        *self.stats.entry("final.references_with_text".to_string()).or_insert(0) += refs.iter().filter(|e| ref_text(e).is_some()).count() as u64;
        *self.stats.entry("final.dangling_or_mistyped".to_string()).or_insert(0) += dangling as u64;
        *self.stats.entry("final.identifiables".to_string()).or_insert(0) += self.ck.live.iter().flat_map(|l| l.iter()).filter(|i| self.ck.w.elems[**i].is_identifiable()).count() as u64;
    }

    /// kind `sort`: one or two package elements that hold 2-3 siblings without SHORT-NAME, INDEX, DEFINITION-REF and DEST
    /// (`Element::cmp` orders them by content) each of which holds a reorderable container with 2-3 children drawn from a
    /// small pool (so that the lists overlap and their order decides the comparison): INCLUDED-DATA-TYPE-SETs with
    /// DATA-TYPE-REFS, CAN-TP-CONNECTIONs with RECEIVER-REFS, SUB-ELEMENT-MAPPINGs with FIRST-ELEMENTS,
    /// ROLE-BASED-DATA-ASSIGNMENTs with POST-BUILD-VARIANT-CONDITIONS.  `build(.., shuffle = true)` inserts the children of
    /// every level in a random order.
    fn content_compared_specs(&mut self) -> Vec<Spec> {
        use ElementName::{
            ApplicationSwComponentType, AssignedDatas, BswInternalBehavior, BswModuleDescription, BswServiceDependency, CanTpConfig, CanTpConnection, DataMappings, DataPrototypeMapping, DataTypeRef, DataTypeRefs, FirstElements,
            ImplementationDataTypeSubElementRef, IncludedDataTypeSet, IncludedDataTypeSets, InternalBehaviors, LiteralPrefix, MatchingCriterionRef, PortInterfaceMappingSet, PortInterfaceMappings, PostBuildVariantCondition,
            PostBuildVariantConditions, ReceiverRef, ReceiverRefs, Role, RoleBasedDataAssignment, ServiceDependencys, ShortLabel, SubElementMapping, SubElementMappings, SwcInternalBehavior, TpConnections,
            VariableAndParameterInterfaceMapping, VariationPoint,
        };
        const PATHS: [&str; 5] = ["/t/A", "/t/B", "/t/C", "/t/D", "/t/a10"];
        const LABELS: [&str; 5] = ["A", "B", "C", "D", "a10"];
        let mut shapes: Vec<usize> = vec![0, 1, 2, 3];
        let n = if self.rng.chance(1, 4) { 2 } else { 1 };
        let mut out = vec![];
        for _ in 0..n {
            let shape = shapes.remove(self.rng.below(shapes.len()));
            // the inner lists: 2-3 siblings, each with 2-3 distinct entries of the pool
            let nsib = if self.rng.chance(1, 3) { 3 } else { 2 };
            let mut lists: Vec<Vec<usize>> = vec![];
            for _ in 0..nsib {
                let mut pool: Vec<usize> = (0..PATHS.len()).collect();
                let len = 2 + self.rng.below(2);
                lists.push((0..len).map(|_| pool.remove(self.rng.below(pool.len()))).collect());
            }
            self.stat(format!("tpl.content_compared_shape_{shape}"));
            let inner = |l: &Vec<usize>, f: &dyn Fn(usize) -> Spec| -> Vec<Spec> { l.iter().map(|i| f(*i)).collect() };
            out.push(match shape {
                0 => Spec::Named(ApplicationSwComponentType, "cc_swc", vec![Spec::Plain(InternalBehaviors, vec![Spec::Named(SwcInternalBehavior, "ib", vec![Spec::Plain(
                    IncludedDataTypeSets,
                    lists.iter().map(|l| Spec::Plain(IncludedDataTypeSet, vec![Spec::Plain(DataTypeRefs, inner(l, &|i| Spec::Ref(DataTypeRef, PATHS[i], EnumItem::ImplementationDataType))), Spec::Leaf(LiteralPrefix, "P_")])).collect(),
                )])])]),
                1 => Spec::Named(CanTpConfig, "cc_tp", vec![Spec::Plain(
                    TpConnections,
                    lists.iter().map(|l| Spec::Plain(CanTpConnection, vec![Spec::Plain(ReceiverRefs, inner(l, &|i| Spec::Ref(ReceiverRef, PATHS[i], EnumItem::CanTpNode)))])).collect(),
                )]),
                2 => Spec::Named(PortInterfaceMappingSet, "cc_pims", vec![Spec::Plain(PortInterfaceMappings, vec![Spec::Named(VariableAndParameterInterfaceMapping, "vm", vec![Spec::Plain(DataMappings, vec![Spec::Plain(
                    DataPrototypeMapping,
                    vec![Spec::Plain(
                        SubElementMappings,
                        lists
                            .iter()
                            .map(|l| Spec::Plain(SubElementMapping, vec![Spec::Plain(FirstElements, inner(l, &|i| Spec::Plain(ImplementationDataTypeSubElementRef, vec![Spec::Plain(VariationPoint, vec![Spec::Leaf(ShortLabel, LABELS[i])])])))]))
                            .collect(),
                    )],
                )])])])]),
                _ => Spec::Named(BswModuleDescription, "cc_bsw", vec![Spec::Plain(InternalBehaviors, vec![Spec::Named(BswInternalBehavior, "ib", vec![Spec::Plain(ServiceDependencys, vec![Spec::Plain(
                    BswServiceDependency,
                    vec![Spec::Plain(
                        AssignedDatas,
                        lists
                            .iter()
                            .map(|l| {
                                Spec::Plain(RoleBasedDataAssignment, vec![
                                    Spec::Leaf(Role, "r"),
                                    Spec::Plain(VariationPoint, vec![Spec::Plain(PostBuildVariantConditions, inner(l, &|i| Spec::Plain(PostBuildVariantCondition, vec![Spec::Ref(MatchingCriterionRef, PATHS[i], EnumItem::PostBuildVariantCriterion)])))]),
                                ])
                            })
                            .collect(),
                    )],
                )])])])]),
            });
        }
        out
    }

    /// kind `sort`: the same siblings built twice in different insertion orders, sorted, compared
    fn twins(&mut self, root: usize, _pkgs: &[usize]) {
        use ElementName::{ArPackage, ArPackages, Category, Containers, DefinitionRef, EcuInstance, EcucContainerValue, EcucModuleConfigurationValues, EcucNumericalParamValue, Elements, ISignal, Index, Length, ParameterValues, System, Value};
        let Some(pkgs) = self.el(root).get_sub_element(ArPackages).and_then(|e| self.ck.w.ids.get(&e).copied()) else { return };
        let with_index = self.rng.chance(3, 4);
        let idx = |v: &'static str| -> Vec<Spec> { if with_index { vec![Spec::Leaf(Index, v)] } else { vec![] } };
        let params = |a: &'static str, b: &'static str| -> Spec {
            Spec::Plain(ParameterValues, vec![
                Spec::Plain(EcucNumericalParamValue, vec![Spec::Ref(DefinitionRef, a, EnumItem::EcucIntegerParamDef), Spec::Leaf(Value, "1")]),
                Spec::Plain(EcucNumericalParamValue, vec![Spec::Ref(DefinitionRef, b, EnumItem::EcucIntegerParamDef), Spec::Leaf(Value, "2")]),
                Spec::Plain(EcucNumericalParamValue, vec![Spec::Ref(DefinitionRef, a, EnumItem::EcucIntegerParamDef), Spec::Leaf(Value, "3")]),
            ])
        };
        let mk = || -> Vec<Spec> {
            vec![
                Spec::Named(System, "a2", vec![Spec::Leaf(Category, "C2")]),
                Spec::Named(System, "a10", vec![]),
                Spec::Named(System, "a1b", vec![]),
                Spec::Named(System, "a1", vec![Spec::Leaf(Category, "C1")]),
                Spec::Named(EcuInstance, "b", vec![]),
                Spec::Named(ISignal, "a", vec![Spec::Leaf(Length, "8")]),
                Spec::Named(EcucModuleConfigurationValues, "ec", vec![Spec::Plain(Containers, vec![
                    Spec::Named(EcucContainerValue, "a2", { let mut v = idx("2"); v.push(params("/d/p2", "/d/p1")); v }),
                    Spec::Named(EcucContainerValue, "a10", idx("10")),
                    Spec::Named(EcucContainerValue, "a1b", vec![]),
                    Spec::Named(EcucContainerValue, "a1", idx("0x1")),
                    Spec::Named(EcucContainerValue, "pkg1", idx("2")),
                ])]),
            ]
        };
        // siblings that are compared by their CONTENT, with reorderable containers inside (C14: the result of `sort` must not
        // depend on whether these inner containers were already sorted when their parents were compared)
        let cc = if self.rng.chance(1, 2) { self.content_compared_specs() } else { vec![] };
        let mut tops = vec![];
        for name in ["tw1", "tw2"] {
            let Some(p) = self.named(pkgs, ArPackage, name) else { return };
            let Some(els) = self.create(p, Elements) else { return };
            let specs = mk();
            self.build(els, &specs, true);
            if !cc.is_empty() {
                self.quiet_build = true;
                self.build(els, &cc, true);
                self.quiet_build = false;
                self.req("dump".to_string());
            }
            // equal names in different parents: sub-packages a2 / a10 / a1 in both
            let sub = self.create(p, ArPackages);
            if let Some(sub) = sub {
                let mut names = vec!["a2", "a10", "a1"];
                while !names.is_empty() {
                    let n = names.remove(self.rng.below(names.len()));
                    self.named(sub, ArPackage, n);
                }
            }
            tops.push((p, els, sub));
        }
        if self.rng.chance(1, 3) {
            self.m("sortm m0".to_string());
            self.m("sortm m0".to_string());
        } else {
            for (p, els, _) in &tops {
                let x = if self.rng.chance(1, 2) { *p } else { *els };
                self.m(format!("sort e{x}"));
                self.m(format!("sort e{x}"));
                if x != *p {
                    self.m(format!("sort e{p}"));
                }
            }
        }
        self.req(format!("#twin e{} e{}", tops[0].1, tops[1].1));
        if let (Some(a), Some(b)) = (tops[0].2, tops[1].2) {
            self.req(format!("#twin e{a} e{b}"));
        }
    }
}

/// the world-protocol requests for one document and the library's answers: a fresh model per mode, `load`, the state,
/// the text of the file and the state again (scenarios `docs` and `c02` put them into their request stream so that the Lean
/// parser / serializer model answers them too)
pub fn doc_lines(bytes: &[u8], with_dump: bool) -> Vec<(String, String)> {
    let mut out = vec![];
    for strict in [true, false] {
        let mut w = World::new();
        let mut reqs = vec!["reset".to_string(), "newmodel".to_string(), format!("load m0 {} {} {}", hx("d.arxml"), strict as u8, hex(bytes))];
        if with_dump {
            reqs.extend(["dump".to_string(), "ser f0".to_string(), "dump".to_string()]);
        }
        for r in reqs {
            let a = match catch_unwind(AssertUnwindSafe(|| w.exec(&r))) {
                Ok(a) => a,
                Err(_) => "panic".to_string(),
            };
            let stop = r.starts_with("load") && !a.starts_with("ok");
            out.push((r, a));
            if stop {
                break;
            }
        }
    }
    out
}

/// the world-protocol requests for loading several documents into one model in the given order (scenario `merge`): the state
/// after every load, then the sorted model
pub fn merge_lines(docs: &[(String, String)]) -> Vec<(String, String)> {
    let mut out = vec![];
    let mut w = World::new();
    let mut reqs = vec!["reset".to_string(), "newmodel".to_string()];
    for (name, text) in docs {
        reqs.push(format!("load m0 {} 1 {}", hx(name), hex(text.as_bytes())));
        reqs.push("dump".to_string());
    }
    reqs.push("sortm m0".to_string());
    reqs.push("dump".to_string());
    for r in reqs {
        let a = match catch_unwind(AssertUnwindSafe(|| w.exec(&r))) {
            Ok(a) => a,
            Err(_) => "panic".to_string(),
        };
        let stop = r.starts_with("load") && !a.starts_with("ok");
        out.push((r, a));
        if stop {
            break;
        }
    }
    out
}

// ------------------------------------------------------------------------------------------------
// 4. the scenario
// ------------------------------------------------------------------------------------------------

fn spawn_history(seed: u64, kind: Kind, thorough: bool, prop: Option<String>) -> Shared {
    let sh: Shared = Arc::new(Mutex::new(HistOut::default()));
    let sh2 = sh.clone();
    std::thread::spawn(move || {
        let mut rng = Rng::new(seed);
        let mut flag = |pct: u64| rng.chance(pct, 1000);
        let (a, b, c, d, e, f, f2, f3, f4) = (flag(15), flag(15), flag(15), flag(30), flag(15), flag(12), flag(12), flag(12), flag(12));
        let with_load = flag(500);
        let f5 = flag(100) && matches!(prop.as_deref(), None | Some("C03" | "C04" | "C05" | "C06" | "C10" | "C11" | "C12"));
        sh2.lock().unwrap().flags = [(a, "collision"), (b, "ancestor-move"), (c, "mixed-cdata"), (d, "remove-self"), (e, "dangling-rename"), (f, "last-file"), (f2, "stale-file"), (f3, "root-attr"), (f4, "split-move"), (f5, "bad-names")].iter().filter(|x| x.0).map(|x| x.1).collect::<Vec<_>>().join("+");
        let mut g = Gen {
            rng,
            ck: Checker::new(prop, kind),
            sh: sh2.clone(),
            kind,
            thorough,
            phase: "tpl",
            nmut: 0,
            stats: BTreeMap::new(),
            scope: None,
            allow_collision: a,
            allow_load: with_load || f5,
            allow_ancestor: b,
            allow_mixed: c,
            allow_rmself: d,
            allow_dangling_rename: e,
            allow_last_file: f,
            allow_stale_file: f2,
            allow_root_attr: f3,
            allow_split_move: f4,
            allow_bad_names: f5,
            quiet_build: false,
        };
        let r = catch_unwind(AssertUnwindSafe(|| g.history()));
        let mut o = sh2.lock().unwrap();
        if o.done {
            return;
        }
        if r.is_err() {
            let h = o.hist.clone();
            let last = o.inflight.as_ref().map(|x| x.0.clone()).unwrap_or_default();
            o.fails.push((Failure::new("C12", "panic-oracle", format!("panic outside of a protocol request (in an oracle or in the generator) around `{last}`")), h));
        }
        for (k, v) in &g.stats {
            o.stats.push((k.clone(), *v));
        }
        o.stats.push((format!("histories.{}", kind.name()), 1));
        o.done = true;
    });
    sh
}

pub fn run(out: &str, seed: u64, thorough: bool, side: &str, prop: Option<&str>, kind: Option<&str>) {
    silence_panics();
    if std::path::Path::new(side).exists() {
        if let Ok(s) = catch_unwind(|| crate::specwalk::Side::load(side)) {
            let l = (s.n_elem as u16, s.n_attr as u16, s.n_enum as u16);
            if l.0 > 0 && l.1 > 0 && l.2 > 0 {
                let _ = LIMITS.set(l);
            }
        }
    }
    let fixed_kind = kind.map(|k| Kind::parse(k).unwrap_or_else(|| panic!("unknown history kind {k}")));
    let mut k = Sink::new(out);
    let t0 = Instant::now();
    let n_hist = if thorough { 5000 } else { 300 };
    let mut master = Rng::new(seed);
    let plans: Vec<(u64, Kind)> = (0..n_hist)
        .map(|_| {
            let s = master.next();
            let kd = fixed_kind.unwrap_or_else(|| match master.below(100) {
                0..=54 => Kind::Basic,
                55..=69 => Kind::Sort,
                70..=84 => Kind::Copy,
                _ => Kind::Files,
            });
            (s, kd)
        })
        .collect();
    let par = std::thread::available_parallelism().map(|n| n.get()).unwrap_or(4).clamp(1, 12);
    let mut rep = Reporter { out: out.to_string(), nfail: 0, shrunk_per_key: HashMap::new(), prop: prop.map(|s| s.to_string()) };
    let mut window: std::collections::VecDeque<(usize, Shared, Instant)> = Default::default();
    let mut next = 0usize;
    let total = Duration::from_secs(if thorough { 60 } else { 20 });
    while next < plans.len() || !window.is_empty() {
        while window.len() < par && next < plans.len() {
            let (s, kd) = plans[next];
            window.push_back((next, spawn_history(s, kd, thorough, prop.map(|x| x.to_string())), Instant::now()));
            next += 1;
        }
        let (i, sh, started) = window.pop_front().unwrap();
        wait_for(&sh, started, total);
        let (lines, fails, stats, flags) = {
            let mut g = sh.lock().unwrap();
            (std::mem::take(&mut g.lines), std::mem::take(&mut g.fails), std::mem::take(&mut g.stats), g.flags.clone())
        };
        sink_lines(&mut k, &lines);
        for (key, v) in stats {
            *k.stats.entry(key).or_insert(0) += v;
        }
        k.stat("histories");
        for (f, h) in &fails {
            rep.report(&mut k, f, h, plans[i].1, &format!("history #{i} seed={} rare-triggers={}", plans[i].0, if flags.is_empty() { "none" } else { &flags }));
        }
    }
    let ms = t0.elapsed().as_millis();
    k.finish(out, &format!("\"elapsed_ms\": {ms}, \"seed\": {seed}, \"tier\": \"{}\", \"workers\": {par}", if thorough { "thorough" } else { "quick" }));
}
