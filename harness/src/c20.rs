//! C20 scenario: typed values — numeric interpretation of texts, formatting/parsing round trips.
use crate::util::*;
use autosar_data::*;

const HEAD: &str = "<?xml version=\"1.0\" encoding=\"utf-8\"?>\n<AUTOSAR xsi:schemaLocation=\"http://autosar.org/schema/r4.0 AUTOSAR_00053.xsd\" xmlns=\"http://autosar.org/schema/r4.0\" xmlns:xsi=\"http://www.w3.org/2001/XMLSchema-instance\"><AR-PACKAGES><AR-PACKAGE><SHORT-NAME>p</SHORT-NAME>";
const TAIL: &str = "</AR-PACKAGE></AR-PACKAGES></AUTOSAR>";

fn doc(kind: &str, text: &[u8]) -> Vec<u8> {
    let (a, b) = match kind {
        "float" => ("<ELEMENTS><CONTAINER-I-PDU><SHORT-NAME>c</SHORT-NAME><CONTAINER-TIMEOUT>", "</CONTAINER-TIMEOUT></CONTAINER-I-PDU></ELEMENTS>"),
        "uint" => ("<ELEMENTS><BSW-COMPOSITION-TIMING><SHORT-NAME>c</SHORT-NAME><TIMING-CLOCKS><TDLET-ZONE-CLOCK><SHORT-NAME>z</SHORT-NAME><ACCURACY-EXT><CSE-CODE>", "</CSE-CODE></ACCURACY-EXT></TDLET-ZONE-CLOCK></TIMING-CLOCKS></BSW-COMPOSITION-TIMING></ELEMENTS>"),
        _ => ("<ADMIN-DATA><SDGS><SDG GID=\"g\"><SD GID=\"x\">", "</SD></SDG></SDGS></ADMIN-DATA>"),
    };
    let mut v = HEAD.as_bytes().to_vec();
    v.extend_from_slice(a.as_bytes());
    v.extend_from_slice(text);
    v.extend_from_slice(b.as_bytes());
    v.extend_from_slice(TAIL.as_bytes());
    v
}

fn leaf(model: &AutosarModel, kind: &str) -> Option<Element> {
    let p = model.get_element_by_path("/p")?;
    match kind {
        "float" => model.get_element_by_path("/p/c")?.get_sub_element(ElementName::ContainerTimeout),
        "uint" => model.get_element_by_path("/p/c/z")?.get_sub_element(ElementName::AccuracyExt)?.get_sub_element(ElementName::CseCode),
        _ => p.get_sub_element(ElementName::AdminData)?.get_sub_element(ElementName::Sdgs)?.get_sub_element(ElementName::Sdg)?.get_sub_element(ElementName::Sd),
    }
}

/// strict load of a document holding `text` in a leaf of the given value kind; the leaf's value
fn load_value(kind: &str, text: &[u8]) -> Result<Option<CharacterData>, ()> {
    let model = AutosarModel::new();
    match model.load_buffer(&doc(kind, text), "f.arxml", true) {
        Ok(_) => Ok(leaf(&model, kind).and_then(|e| e.character_data())),
        Err(_) => Err(()),
    }
}

fn fbits(f: f64) -> String {
    if f.is_nan() { "nan".to_string() } else { format!("{:016x}", f.to_bits()) }
}

fn between<'a>(text: &'a str, open: &str, close: &str) -> Option<&'a str> {
    let i = text.find(open)? + open.len();
    let j = text[i..].find(close)? + i;
    Some(&text[i..j])
}

pub struct Fixture {
    model: AutosarModel,
    file: ArxmlFile,
    float_el: Element,
    uint_el: Element,
    sd_el: Element,
}

impl Fixture {
    pub fn new() -> Fixture {
        let model = AutosarModel::new();
        let (file, _) = model.load_buffer(&doc("none", b""), "f.arxml", true).expect("fixture");
        let p = model.get_element_by_path("/p").unwrap();
        let sd_el = leaf(&model, "sd").unwrap();
        let elements = p.create_sub_element(ElementName::Elements).unwrap();
        let c = elements.create_named_sub_element(ElementName::ContainerIPdu, "c").unwrap();
        let float_el = c.create_sub_element(ElementName::ContainerTimeout).unwrap();
        let t = elements.create_named_sub_element(ElementName::BswCompositionTiming, "t").unwrap();
        let z = t.create_sub_element(ElementName::TimingClocks).unwrap().create_named_sub_element(ElementName::TdletZoneClock, "z").unwrap();
        let uint_el = z.create_sub_element(ElementName::AccuracyExt).unwrap().create_sub_element(ElementName::CseCode).unwrap();
        Fixture { model, file, float_el, uint_el, sd_el }
    }
    fn ser(&self) -> String {
        let _ = &self.model;
        self.file.serialize().unwrap()
    }
}

fn int_req(k: &mut Sink, text: &[u8]) {
    let Ok(s) = std::str::from_utf8(text) else { return };
    let cd = CharacterData::String(s.to_string());
    macro_rules! one {
        ($t:ty, $name:expr) => {
            let r: Option<$t> = cd.parse_integer();
            k.put(&format!("parse_int {} {}", $name, hex(text)), &match r { Some(v) => format!("ok {v}"), None => "none".into() }, true);
            if r.is_some() { k.stat("int_some") } else { k.stat("int_none") }
        };
    }
    one!(u8, "u8"); one!(u16, "u16"); one!(u32, "u32"); one!(u64, "u64"); one!(u128, "u128");
    one!(i8, "s8"); one!(i16, "s16"); one!(i32, "s32"); one!(i64, "s64"); one!(i128, "s128");
    one!(usize, "u64"); one!(isize, "s64");
}

fn float_req(k: &mut Sink, text: &[u8]) {
    let Ok(s) = std::str::from_utf8(text) else { return };
    let cd = CharacterData::String(s.to_string());
    let r = cd.parse_float();
    k.put(&format!("parse_float {}", hex(text)), &match r { Some(v) => format!("ok {}", fbits(v)), None => "none".into() }, true);
    if r.is_some() { k.stat("float_some") } else { k.stat("float_none") }
    // direct oracle: a text in one of the radix lexical forms denotes a number, so `parse_float` must return one
    let radix_form = |p: &str, ok: fn(&u8) -> bool| s.strip_prefix(p).is_some_and(|d| !d.is_empty() && d.as_bytes().iter().all(ok));
    let in_form = radix_form("0x", u8::is_ascii_hexdigit) || radix_form("0X", u8::is_ascii_hexdigit)
        || radix_form("0b", |c| *c == b'0' || *c == b'1') || radix_form("0B", |c| *c == b'0' || *c == b'1')
        || radix_form("0", |c| (b'0'..=b'7').contains(c));
    if in_form {
        // independent value: digits accumulated in u128 (exact below 2^128), converted by the hardware (correctly rounded)
        let (digits, radix) = if let Some(d) = s.strip_prefix("0x").or(s.strip_prefix("0X")) { (d, 16u128) } else if let Some(d) = s.strip_prefix("0b").or(s.strip_prefix("0B")) { (d, 2) } else { (&s[1..], 8) };
        let mut v: Option<u128> = Some(0);
        for c in digits.bytes() {
            let d = (c as char).to_digit(16).unwrap() as u128;
            v = v.and_then(|x| x.checked_mul(radix)).and_then(|x| x.checked_add(d));
        }
        match (v, r) {
            (Some(x), Some(got)) if x <= u64::MAX as u128 => {
                if got.to_bits() != (x as u64 as f64).to_bits() {
                    k.fail(format!("parse_float({s:?}) = {got:e} (bits {:016x}) but the text denotes {x}, whose nearest double has bits {:016x}", got.to_bits(), (x as u64 as f64).to_bits()));
                }
            }
            (Some(x), None) if x <= u64::MAX as u128 => k.fail(format!("parse_float({s:?}) returns None but the text denotes {x}, which fits")),
            (_, None) => k.fail(format!("[sig=parse_float:radix-form-above-u64] parse_float({s:?}) returns None for a text of the hexadecimal/binary/octal lexical form")),
            _ => {}
        }
    }
    let b = cd.parse_bool();
    k.put(&format!("parse_bool {}", hex(text)), &match b { Some(v) => format!("ok {v}"), None => "none".into() }, false);
}

fn xml_safe(t: &[u8]) -> bool {
    !t.contains(&b'<') && std::str::from_utf8(t).is_ok() && !t.first().is_some_and(|c| c.is_ascii_whitespace()) && !t.last().is_some_and(|c| c.is_ascii_whitespace())
}

fn load_reqs(k: &mut Sink, text: &[u8]) {
    if !xml_safe(text) || text.contains(&b'&') { return; }
    let r = load_value("float", text);
    k.put(&format!("load_float {}", hex(text)), &match &r { Ok(Some(CharacterData::Float(f))) => format!("ok {}", fbits(*f)), Ok(_) => "ok other".into(), Err(_) => "err".into() }, true);
    let r = load_value("uint", text);
    k.put(&format!("load_uint {}", hex(text)), &match &r { Ok(Some(CharacterData::UnsignedInteger(n))) => format!("ok {n}"), Ok(_) => "ok other".into(), Err(_) => "err".into() }, true);
}

pub fn run(out: &str, seed: u64, thorough: bool, _side: &str) {
    let mut rng = Rng::new(seed);
    let mut k = Sink::new(out);
    let fx = Fixture::new();
    let scale = if thorough { 10 } else { 1 };

    // ---- all texts up to a length over the alphabet of the lexical forms ----
    let alpha: &[u8] = b"0123456789abfxXBeE+-.";
    let small: &[u8] = b"01789axXbB+-.eE";
    let mut texts: Vec<Vec<u8>> = vec![vec![]];
    let mut cur: Vec<Vec<u8>> = vec![vec![]];
    for len in 1..=(if thorough { 5 } else { 4 }) {
        let al = if len <= 3 { alpha } else { small };
        let mut next = vec![];
        for s in &cur {
            for a in al {
                let mut t = s.clone();
                t.push(*a);
                next.push(t);
            }
        }
        texts.extend(next.iter().cloned());
        cur = next;
    }
    // boundary values of every width in every radix, with and without sign / prefix variants
    let mut bounds: Vec<i128> = vec![0, 1, -1];
    for b in [7u32, 8, 15, 16, 31, 32, 63, 64, 127] {
        let p = 1i128 << b;
        bounds.extend([p - 1, p, p + 1, -p, -p - 1, -p + 1]);
    }
    let mut forms: Vec<String> = vec![];
    for v in &bounds {
        let a = v.unsigned_abs();
        let sgn = if *v < 0 { "-" } else { "" };
        forms.push(format!("{v}"));
        if *v >= 0 { forms.push(format!("+{v}")); }
        forms.push(format!("{sgn}0x{a:x}")); forms.push(format!("0x{a:X}")); forms.push(format!("0X{a:x}"));
        forms.push(format!("0b{a:b}")); forms.push(format!("0B{a:b}")); forms.push(format!("0{a:o}")); forms.push(format!("00{a:o}"));
        forms.push(format!("0x{sgn}{a:x}")); forms.push(format!("0x+{a:x}"));
    }
    forms.extend(["0x10000000000000000", "0xFFFFFFFFFFFFFFFF", "0xffffffffffffffffffffffffffffffff", "0x100000000000000000000000000000000",
        "340282366920938463463374607431768211455", "340282366920938463463374607431768211456", "-170141183460469231731687303715884105728",
        "-170141183460469231731687303715884105729", "18446744073709551615", "18446744073709551616", "01777777777777777777777", "02000000000000000000000",
        "0b1111111111111111111111111111111111111111111111111111111111111111", "0b10000000000000000000000000000000000000000000000000000000000000000",
        "true", "false", "TRUE", "True", "1", "0", "INF", "-INF", "+INF", "NaN", "nan", "inf", "Infinity", "-infinity", "infinit", ".0", "0.", ".", "-.5", "1e", "1e+", "e5", "1_0", " 1", "1 ",
        "0x", "0b", "0X", "0B", "00", "000", "08", "09", "0o7", "0xg", "0b2", "١٢٣", "1e400", "-1e400", "1e-400", "4.9e-324", "2.4703282292062327e-324", "2.4703282292062328e-324",
        "1.7976931348623157e308", "1.7976931348623158e308", "1.7976931348623159e308", "2.2250738585072011e-308", "2.2250738585072014e-308", "9007199254740993", "9007199254740992.5",
        "0.1", "0.30000000000000004", "123456789012345678901234567890", "0.000000000000000000000000000001", "1.0e+3", "1E3", "-0", "-0.0", "+0.0", "0e0"].iter().map(|s| s.to_string()));
    for f in forms { texts.push(f.into_bytes()); }
    // random decimal / scientific texts and random u64 in every radix form
    for _ in 0..(20000 * scale) {
        let mut s = String::new();
        if rng.chance(1, 4) { s.push(if rng.chance(1, 2) { '-' } else { '+' }); }
        match rng.below(6) {
            0 => { let v = rng.next() >> rng.below(64); s.push_str(&format!("0x{v:x}")); }
            1 => { let v = rng.next() >> rng.below(64); s.push_str(&format!("0b{v:b}")); }
            2 => { let v = rng.next() >> rng.below(64); s.push_str(&format!("0{v:o}")); }
            3 => { let v = rng.next() >> rng.below(64); s.push_str(&format!("{v}")); }
            _ => {
                let big = rng.chance(1, 8);
                let nd = 1 + rng.below(if big { 40 } else { 18 });
                for i in 0..nd { s.push((b'0' + if i == 0 { 1 + rng.below(9) } else { rng.below(10) } as u8) as char); }
                if rng.chance(2, 3) { s.push('.'); for _ in 0..rng.below(20) { s.push((b'0' + rng.below(10) as u8) as char); } }
                if rng.chance(1, 2) { s.push(if rng.chance(1, 2) { 'e' } else { 'E' }); if rng.chance(1, 2) { s.push(if rng.chance(1, 2) { '-' } else { '+' }); } let bigexp = rng.chance(1, 5); s.push_str(&format!("{}", rng.below(if bigexp { 400 } else { 30 }))); }
            }
        }
        texts.push(s.into_bytes());
    }
    k.stats.insert("texts".into(), texts.len() as u64);
    for (i, t) in texts.iter().enumerate() {
        int_req(&mut k, t);
        float_req(&mut k, t);
        if t.len() > 4 || i % 7 == 0 { load_reqs(&mut k, t); }
    }

    // ---- formatting -> parsing round trips ----
    // u64: the whole range by bit length, boundaries, random
    let mut us: Vec<u64> = vec![0, 1, 9, 10, 99, 100, u64::MAX, u64::MAX - 1, 1 << 63, (1 << 63) - 1, 10000000000000000000, 9999999999999999999];
    for b in 0..64 { us.extend([1u64 << b, (1u64 << b).wrapping_sub(1), (1u64 << b) + 1]); }
    let mut p = 1u64; for _ in 0..19 { p *= 10; us.extend([p, p - 1, p + 1]); }
    for _ in 0..(3000 * scale) { us.push(rng.next() >> rng.below(64)); }
    for n in us {
        fx.uint_el.set_character_data(CharacterData::UnsignedInteger(n)).unwrap();
        let s = fx.ser();
        let txt = between(&s, "<CSE-CODE>", "</CSE-CODE>").unwrap_or("?").to_string();
        k.put(&format!("to_dec {n}"), &format!("ok {}", hex(txt.as_bytes())), true);
        let back = load_value("uint", txt.as_bytes());
        k.put(&format!("load_uint {}", hex(txt.as_bytes())), &match &back { Ok(Some(CharacterData::UnsignedInteger(m))) => format!("ok {m}"), Ok(_) => "ok other".into(), Err(_) => "err".into() }, true);
        if !matches!(back, Ok(Some(CharacterData::UnsignedInteger(m))) if m == n) {
            k.fail(format!("unsigned integer {n} is written as {txt:?} and read back as {back:?}"));
        }
        k.stat("uint_roundtrip");
    }
    // f64: all bit classes
    let mut fs: Vec<u64> = vec![0, 1 << 63, 1, 2, (1 << 52) - 1, 1 << 52, (1 << 52) + 1, 0x7FEF_FFFF_FFFF_FFFF, 0x7FF0_0000_0000_0000, 0xFFF0_0000_0000_0000, 0x7FF8_0000_0000_0000, 0x7FF0_0000_0000_0001, 0x3FF0_0000_0000_0000, 0x3FB9_9999_9999_999A, 0x4340_0000_0000_0000, 0x4340_0000_0000_0001, 0x433F_FFFF_FFFF_FFFF];
    for e in 0..2047u64 { for m in [0u64, 1, (1 << 52) - 1] { fs.push((e << 52) | m); } }
    for _ in 0..(6000 * scale) {
        let bits = match rng.below(4) { 0 => rng.next(), 1 => rng.next() & ((1 << 52) - 1), 2 => (rng.below(2047) as u64) << 52 | (rng.next() & ((1 << 52) - 1)), _ => ((1023 + rng.below(80)) as u64) << 52 | (rng.next() & ((1 << 52) - 1)) & !((1u64 << rng.below(52)) - 1) };
        fs.push(bits); fs.push(bits | 1 << 63);
    }
    for bits in fs {
        let f = f64::from_bits(bits);
        fx.float_el.set_character_data(CharacterData::Float(f)).unwrap();
        let s = fx.ser();
        let txt = between(&s, "<CONTAINER-TIMEOUT>", "</CONTAINER-TIMEOUT>").unwrap_or("?").to_string();
        let back = load_value("float", txt.as_bytes());
        k.put(&format!("load_float {}", hex(txt.as_bytes())), &match &back { Ok(Some(CharacterData::Float(g))) => format!("ok {}", fbits(*g)), Ok(_) => "ok other".into(), Err(_) => "err".into() }, true);
        let ok = matches!(back, Ok(Some(CharacterData::Float(g))) if (g.is_nan() && f.is_nan()) || g.to_bits() == bits);
        if !ok {
            k.fail(format!("float with bits {bits:016x} is written as {txt:?} and read back as {back:?}"));
        }
        // also through parse_float of the written text
        let pf = CharacterData::String(txt.clone()).parse_float();
        k.put(&format!("parse_float {}", hex(txt.as_bytes())), &match pf { Some(v) => format!("ok {}", fbits(v)), None => "none".into() }, true);
        k.stat("float_roundtrip");
    }
    // strings: every escapable character in every position class, multi-byte characters, entities
    let pieces: [&str; 16] = ["&", "<", ">", "\"", "'", "a", "Z", "ä", "€", "𝄞", ";", "#", "amp", "&amp;", " ", "x"];
    let mut strs: Vec<String> = vec![String::new()];
    for a in pieces { strs.push(a.to_string()); for b in pieces { strs.push(format!("{a}{b}")); for c in ["&", "<", "tail", "'"] { strs.push(format!("{a}{b}{c}")); } } }
    for _ in 0..(4000 * scale) {
        let n = 1 + rng.below(10);
        strs.push((0..n).map(|_| *rng.pick(&pieces)).collect::<String>());
    }
    for s in strs {
        fx.sd_el.set_character_data(CharacterData::String(s.clone())).unwrap();
        let ser = fx.ser();
        let txt = between(&ser, "<SD GID=\"x\">", "</SD>").unwrap_or(if ser.contains("<SD GID=\"x\"/>") { "" } else { "?" }).to_string();
        k.put(&format!("escape {}", hex(s.as_bytes())), &format!("ok {}", hex(txt.as_bytes())), !s.is_empty());
        if xml_safe(s.as_bytes()) || s.contains('<') {
            let back = load_value("sd", txt.as_bytes());
            let expect_same = !s.starts_with(' ') && !s.ends_with(' ');
            k.put(&format!("unescape {}", hex(txt.as_bytes())), &match &back { Ok(Some(CharacterData::String(t))) => format!("ok {}", hex(t.as_bytes())), Ok(None) => "ok -".into(), Ok(_) => "ok other".into(), Err(_) => "err".into() }, true);
            let got = match &back { Ok(Some(CharacterData::String(t))) => Some(t.clone()), Ok(None) => Some(String::new()), _ => None };
            if expect_same && got.as_deref() != Some(s.as_str()) {
                k.fail(format!("string {s:?} is written as {txt:?} and read back as {back:?}"));
            }
        }
        k.stat("string_roundtrip");
    }
    // texts with character references and malformed entities (strict loading)
    for t in ["&#65;", "&#x41;", "&#x20AC;", "&#8364;", "&#x1D11E;", "&#xD800;", "&#x110000;", "&#x;", "&#;", "&#x41", "&#65", "&#x+41;", "&#+65;", "&#xZZ;", "&#00065;", "&#x00000041;", "&#4294967296;", "&lt", "&lt;&gt;&amp;&apos;&quot;", "&bogus;", "&", "a&b", "&amp;amp;", "&#x41;&#66;c", "&#x10FFFF;", "&#xDFFF;", "&#xE000;", "&#0;"] {
        let back = load_value("sd", t.as_bytes());
        k.put(&format!("unescape {}", hex(t.as_bytes())), &match &back { Ok(Some(CharacterData::String(s))) => format!("ok {}", hex(s.as_bytes())), Ok(None) => "ok -".into(), Ok(_) => "ok other".into(), Err(_) => "err".into() }, true);
    }
    k.finish(out, "");
}
