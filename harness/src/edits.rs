//! Scenario `edits`: properties C07 (what the editing API builds conforms to what the loader enforces; insertion
//! ranges; allowed sub-elements) and C17 (version compatibility check == strict validation of the relabelled text;
//! `set_version`).
//!
//! A *case* is self-contained and deterministic: (version, parent element type, list of concrete API calls).  It is
//! executed on fresh models: the parent is built from the root through the editing API (chain of ancestors found by a
//! per-version walk over the specification), plus a sibling instance in the same model, an instance in a model of
//! another version (`donor`), one in another model of the same version (`foreign`) and an `alien` parent that has a
//! child of the same name but a different type.  After every call the oracles run (order / permitted content by an
//! independent reading of the specification, lenient reload of the serialized file); `check_range` calls run the
//! range / allowed oracles.  A failing case is shrunk by deleting calls and written to `<out>/fail_<n>.txt`.
use crate::specwalk::{all_types, TypeInfo, ALL_VERSIONS};
use crate::util::*;
use autosar_data::*;
use autosar_data_specification::{CharacterDataSpec, ContentMode, ElementMultiplicity, ElementType};
use std::cell::RefCell;
use std::collections::{BTreeMap, HashMap, HashSet};
use std::fmt::Write as _;
use std::panic::AssertUnwindSafe;
use std::str::FromStr;
use std::sync::atomic::{AtomicU64, Ordering};
use std::sync::Mutex;

const ALL_MASK: u32 = 0x1F_FFFF;

static PROGRESS: AtomicU64 = AtomicU64::new(0);
static CURRENT: Mutex<String> = Mutex::new(String::new());
static LAST_PANIC: Mutex<String> = Mutex::new(String::new());

fn vname(v: AutosarVersion) -> &'static str {
    v.filename().trim_end_matches(".xsd")
}
fn errname(e: &AutosarDataError) -> String {
    let s = format!("{e:?}");
    s.split(|c: char| !c.is_alphanumeric()).next().unwrap_or("").to_string()
}
fn hash_str(s: &str) -> u64 {
    use std::hash::{Hash, Hasher};
    let mut h = std::collections::hash_map::DefaultHasher::new();
    s.hash(&mut h);
    h.finish()
}

// ------------------------------------------------------------------------------------------------------------------
// specification walk
// ------------------------------------------------------------------------------------------------------------------

struct Spec {
    types: Vec<TypeInfo>,
    idx: HashMap<ElementType, usize>,
    names: Vec<ElementName>,
    attrs: Vec<AttributeName>,
    enums: Vec<EnumItem>,
    /// element name -> (parent type index, child type, version mask)
    by_name: HashMap<ElementName, Vec<(usize, ElementType, u32)>>,
}

impl Spec {
    fn new() -> Spec {
        let types = all_types();
        let mut idx = HashMap::new();
        for (i, t) in types.iter().enumerate() {
            idx.insert(t.ety, i);
        }
        let mut names = vec![];
        let mut seen_n = HashSet::new();
        let mut attrs = vec![];
        let mut seen_a = HashSet::new();
        let mut enums = vec![];
        let mut seen_e = HashSet::new();
        let mut by_name: HashMap<ElementName, Vec<(usize, ElementType, u32)>> = HashMap::new();
        let mut add_spec = |spec: &CharacterDataSpec, enums: &mut Vec<EnumItem>| {
            if let CharacterDataSpec::Enum { items } = spec {
                for (it, _) in items.iter() {
                    if seen_e.insert(*it) {
                        enums.push(*it);
                    }
                }
            }
        };
        for (i, t) in types.iter().enumerate() {
            if seen_n.insert(t.name) {
                names.push(t.name);
            }
            for (n, sub, mask, _) in t.ety.sub_element_spec_iter() {
                by_name.entry(n).or_default().push((i, sub, mask));
            }
            for (a, spec, _) in t.ety.attribute_spec_iter() {
                if seen_a.insert(a) {
                    attrs.push(a);
                }
                add_spec(spec, &mut enums);
            }
            if let Some(spec) = t.ety.chardata_spec() {
                add_spec(spec, &mut enums);
            }
        }
        Spec { types, idx, names, attrs, enums, by_name }
    }
}

/// reachability tree of one version: how to get from the root to every element type using only items of that version
struct VGraph {
    v: AutosarVersion,
    parent: Vec<Option<(usize, ElementName)>>,
    reach: Vec<bool>,
}

impl VGraph {
    fn new(spec: &Spec, v: AutosarVersion) -> VGraph {
        let n = spec.types.len();
        let mut g = VGraph { v, parent: vec![None; n], reach: vec![false; n] };
        let mut q = std::collections::VecDeque::new();
        g.reach[0] = true;
        q.push_back(0usize);
        while let Some(i) = q.pop_front() {
            let ety = spec.types[i].ety;
            for (name, _, mask, _) in ety.sub_element_spec_iter() {
                if mask & (v as u32) == 0 {
                    continue;
                }
                let Some((child, _)) = ety.find_sub_element(name, v as u32) else { continue };
                let Some(&ci) = spec.idx.get(&child) else { continue };
                if !g.reach[ci] {
                    g.reach[ci] = true;
                    g.parent[ci] = Some((i, name));
                    q.push_back(ci);
                }
            }
        }
        g
    }
    fn chain(&self, mut t: usize) -> Vec<ElementName> {
        let mut c = vec![];
        while let Some((p, n)) = self.parent[t] {
            c.push(n);
            t = p;
        }
        c.reverse();
        c
    }
}

struct Ctx {
    spec: Spec,
    graphs: HashMap<u32, VGraph>,
    /// pattern spec address -> pool members that match
    valcache: RefCell<HashMap<usize, Vec<&'static str>>>,
}

impl Ctx {
    fn graph(&self, v: AutosarVersion) -> &VGraph {
        &self.graphs[&(v as u32)]
    }
}

// ------------------------------------------------------------------------------------------------------------------
// values
// ------------------------------------------------------------------------------------------------------------------

#[derive(Clone, Debug, PartialEq)]
enum Val {
    S(String),
    E(EnumItem),
    U(u64),
    F(f64),
}

impl Val {
    fn cd(&self) -> CharacterData {
        match self {
            Val::S(s) => CharacterData::String(s.clone()),
            Val::E(e) => CharacterData::Enum(*e),
            Val::U(u) => CharacterData::UnsignedInteger(*u),
            Val::F(f) => CharacterData::Float(*f),
        }
    }
    fn text(&self) -> String {
        match self {
            Val::S(s) => format!("S:{s:?}"),
            Val::E(e) => format!("E:{}", e.to_str()),
            Val::U(u) => format!("U:{u}"),
            Val::F(f) => format!("F:{f}"),
        }
    }
}

const POOL: &[&str] = &[
    "0", "1", "7", "42", "255", "65535", "-1", "+5", "1.5", "-2.5e3", "1e-3", "0x1F", "0XaB", "0b101", "0777", "true", "false",
    "TRUE", "abc", "ABC", "Abc_1", "a1", "A_B_C", "x", "_x", "1abc", "a b", "a-b", "a.b", "a/b", "/a", "/a/b", "/pkg/elem",
    "a/b/c", "../a", "A[0]", "a[1].b", "%d", "%5.2f", "%s", "1.0.0", "1.2.3", "1.2.3-rc1", "2.0.0+build", "2024-01-31",
    "2024-01-31T13:59:59", "2024-01-31T13:59:59Z", "2024-01-31T13:59:59+01:00", "13:59:59", "P1D", "PT1H",
    "00:11:22:33:44:55", "AA-BB-CC", "192.168.0.1", "255.255.255.0", "::1", "fe80::1", "ANY", "any", "ALL", "EN", "DE", "en",
    "FOR-ALL", "AA", "#FF00FF", "deadBEEF", "0x", "INF", "-INF", "NaN", "1E3", "1:2", "a:b", "a;b", "R4.0.3", "4.0.3", "r1",
    "AUTOSAR", "Abc.Def", "abc::def", "http://x.y/z", "file.txt", "\u{fc}\u{e4}\u{20ac}", "a,b", "(a)", "[1]", "{x}", "a=b",
    "a+b", "*", "?", "a|b", "\\", "'q'", "\"q\"", "<t>", "a&b", "a&lt;b", "x&#65;",
];

impl Ctx {
    fn pattern_members(&self, spec: &'static CharacterDataSpec) -> Vec<&'static str> {
        let key = spec as *const CharacterDataSpec as usize;
        if let Some(v) = self.valcache.borrow().get(&key) {
            return v.clone();
        }
        let mut out = vec![];
        if let CharacterDataSpec::Pattern { check_fn, max_length, .. } = spec {
            for s in POOL {
                if check_fn(s.as_bytes()) && s.len() <= max_length.unwrap_or(usize::MAX) {
                    out.push(*s);
                }
            }
        }
        self.valcache.borrow_mut().insert(key, out.clone());
        out
    }

    /// a value inside the value space of `spec` in version `v` (None: the pool has none)
    fn inside(&self, spec: &'static CharacterDataSpec, v: AutosarVersion, rng: &mut Rng) -> Option<Val> {
        match spec {
            CharacterDataSpec::Enum { items } => {
                let ok: Vec<EnumItem> = items.iter().filter(|(_, m)| m & (v as u32) != 0).map(|(i, _)| *i).collect();
                if ok.is_empty() { None } else { Some(Val::E(*rng.pick(&ok))) }
            }
            CharacterDataSpec::Pattern { .. } => {
                let m = self.pattern_members(spec);
                if m.is_empty() { None } else { Some(Val::S(rng.pick(&m).to_string())) }
            }
            CharacterDataSpec::String { max_length, .. } => {
                for _ in 0..8 {
                    let s = *rng.pick(POOL);
                    if s.len() <= max_length.unwrap_or(usize::MAX) {
                        return Some(Val::S(s.to_string()));
                    }
                }
                Some(Val::S("x".to_string()))
            }
            CharacterDataSpec::UnsignedInteger => Some(Val::U(*rng.pick(&[0u64, 1, 255, 65536, u64::MAX]))),
            CharacterDataSpec::Float => Some(Val::F(*rng.pick(&[0.0f64, 1.5, -2.25, 1e300, 1e-300, 123456789.125, 0.1, f64::INFINITY]))),
        }
    }

    /// a value that is (probably) outside the value space
    fn outside(&self, spec: &'static CharacterDataSpec, v: AutosarVersion, rng: &mut Rng) -> Val {
        match spec {
            CharacterDataSpec::Enum { items } => {
                let bad: Vec<EnumItem> = items.iter().filter(|(_, m)| m & (v as u32) == 0).map(|(i, _)| *i).collect();
                match rng.below(4) {
                    0 | 1 if !bad.is_empty() => Val::E(*rng.pick(&bad)),
                    2 => Val::S(items.first().map(|(i, _)| i.to_str().to_string()).unwrap_or_default()),
                    _ => Val::E(*rng.pick(&self.spec.enums)),
                }
            }
            CharacterDataSpec::Pattern { check_fn, max_length, .. } => match rng.below(4) {
                0 => Val::U(rng.below(1000) as u64),
                1 => Val::F(0.5),
                2 if max_length.is_some() => Val::S("a".repeat(max_length.unwrap() + 1)),
                _ => {
                    for _ in 0..8 {
                        let s = *rng.pick(POOL);
                        if !check_fn(s.as_bytes()) {
                            return Val::S(s.to_string());
                        }
                    }
                    Val::S("\u{1}".to_string())
                }
            },
            CharacterDataSpec::String { max_length, .. } => match rng.below(3) {
                0 if max_length.is_some() => Val::S("b".repeat(max_length.unwrap() + 1)),
                1 => Val::E(*rng.pick(&self.spec.enums)),
                _ => Val::U(17),
            },
            CharacterDataSpec::UnsignedInteger => match rng.below(3) {
                0 => Val::S("12".to_string()),
                1 => Val::F(1.0),
                _ => Val::S("-1".to_string()),
            },
            CharacterDataSpec::Float => match rng.below(3) {
                0 => Val::S("1.5".to_string()),
                1 => Val::U(3),
                _ => Val::E(*rng.pick(&self.spec.enums)),
            },
        }
    }
}

/// does the serialized text of a value belong to the value space of `spec` in version `v` (what a loader must accept)
fn text_in_space(text: &str, spec: &CharacterDataSpec, v: AutosarVersion) -> Result<(), String> {
    match spec {
        CharacterDataSpec::Enum { items } => match EnumItem::from_str(text) {
            Ok(it) => match items.iter().find(|(i, _)| *i == it) {
                Some((_, m)) if m & (v as u32) != 0 => Ok(()),
                Some(_) => Err(format!("enum value {text} is not permitted in {}", vname(v))),
                None => Err(format!("enum value {text} is not in the value list")),
            },
            Err(_) => Err(format!("{text:?} is no enum item")),
        },
        CharacterDataSpec::Pattern { check_fn, max_length, regex } => {
            if text.len() > max_length.unwrap_or(usize::MAX) {
                Err(format!("{text:?} is longer than {max_length:?}"))
            } else if !check_fn(text.as_bytes()) {
                Err(format!("{text:?} does not match {regex}"))
            } else {
                Ok(())
            }
        }
        CharacterDataSpec::String { max_length, .. } => {
            if text.len() > max_length.unwrap_or(usize::MAX) { Err(format!("{text:?} is longer than {max_length:?}")) } else { Ok(()) }
        }
        CharacterDataSpec::UnsignedInteger => text.parse::<u64>().map(|_| ()).map_err(|_| format!("{text:?} is no unsigned integer")),
        CharacterDataSpec::Float => text.parse::<f64>().map(|_| ()).map_err(|_| format!("{text:?} is no float")),
    }
}

// ------------------------------------------------------------------------------------------------------------------
// independent reading of the specification: order, exclusivity, multiplicity, permitted items
// ------------------------------------------------------------------------------------------------------------------

#[derive(Clone, Debug, PartialEq)]
enum Item {
    El(ElementName),
    Text,
}

/// None: the content item list is valid content of an element of type `t` in version `v`
fn order_violation(t: &ElementType, v: AutosarVersion, items: &[Item]) -> Option<String> {
    let mode = t.content_mode();
    let n_text = items.iter().filter(|i| **i == Item::Text).count();
    match mode {
        ContentMode::Characters => {
            if items.len() > n_text {
                return Some("sub-element inside a character-data element".into());
            }
            if n_text > 1 {
                return Some("more than one character data item".into());
            }
            None
        }
        ContentMode::Mixed | ContentMode::Bag => {
            if mode == ContentMode::Bag && n_text > 0 {
                return Some("character data inside an element-only element".into());
            }
            for it in items {
                if let Item::El(n) = it {
                    if t.find_sub_element(*n, v as u32).is_none() {
                        return Some(format!("{} is not permitted in {}", n.to_str(), vname(v)));
                    }
                }
            }
            None
        }
        ContentMode::Sequence | ContentMode::Choice => {
            if n_text > 0 {
                return Some("character data inside an element-only element".into());
            }
            let mut paths = vec![];
            for it in items {
                if let Item::El(n) = it {
                    match t.find_sub_element(*n, v as u32) {
                        Some((_, p)) => paths.push((p, *n)),
                        None => return Some(format!("{} is not permitted in {}", n.to_str(), vname(v))),
                    }
                }
            }
            check_group(t, &paths, 0).err()
        }
    }
}

fn check_group(t: &ElementType, paths: &[(Vec<usize>, ElementName)], d: usize) -> Result<(), String> {
    if paths.is_empty() {
        return Ok(());
    }
    let mode = t.get_sub_element_container_mode(&paths[0].0[..=d]);
    match mode {
        ContentMode::Sequence => {
            let mut i = 0;
            let mut last: Option<usize> = None;
            while i < paths.len() {
                let slot = paths[i].0[d];
                let mut j = i;
                while j < paths.len() && paths[j].0[d] == slot {
                    j += 1;
                }
                if let Some(l) = last {
                    if slot < l {
                        return Err(format!("{} is placed after an element that follows it in the specification sequence", paths[i].1.to_str()));
                    }
                }
                check_slot(t, &paths[i..j], d)?;
                last = Some(last.map_or(slot, |l| l.max(slot)));
                i = j;
            }
            // a slot that re-appears after a later one was reported above (slot < last); equal cannot happen (maximal runs)
            Ok(())
        }
        ContentMode::Choice => {
            let slot = paths[0].0[d];
            if let Some(other) = paths.iter().find(|p| p.0[d] != slot) {
                return Err(format!("{} and {} are alternatives of a choice", paths[0].1.to_str(), other.1.to_str()));
            }
            check_slot(t, paths, d)
        }
        ContentMode::Bag | ContentMode::Mixed => Ok(()),
        ContentMode::Characters => Err("character group".into()),
    }
}

fn check_slot(t: &ElementType, run: &[(Vec<usize>, ElementName)], d: usize) -> Result<(), String> {
    if run[0].0.len() == d + 1 {
        if run.len() > 1 && t.get_sub_element_multiplicity(&run[0].0) != Some(ElementMultiplicity::Any) {
            return Err(format!("{} occurs {} times but may occur once", run[0].1.to_str(), run.len()));
        }
        Ok(())
    } else {
        check_group(t, run, d + 1)
    }
}

fn items_of(e: &Element) -> Vec<Item> {
    e.content()
        .map(|c| match c {
            ElementContent::Element(s) => Item::El(s.element_name()),
            ElementContent::CharacterData(_) => Item::Text,
        })
        .collect()
}

#[derive(Clone, Debug)]
struct Fail {
    key: String,
    detail: String,
    /// the violating element (or one of its ancestors below the checked root) carries another element type than the
    /// one the specification assigns to its name at that place in the file's version
    mismatch: bool,
}

/// validate the subtree of `e`, read as an element of type `t` (the type the loader would assign) in version `v`
fn check_deep(e: &Element, t: ElementType, v: AutosarVersion, path: &str, out: &mut Vec<Fail>) {
    check_deep_mm(e, t, v, path, out, false)
}

fn check_deep_mm(e: &Element, t: ElementType, v: AutosarVersion, path: &str, out: &mut Vec<Fail>, inherited: bool) {
    if out.len() > 4 {
        return;
    }
    let mm = inherited || e.element_type() != t;
    let first_new = out.len();
    let here = format!("{path}/{}", e.element_name().to_str());
    let items = items_of(e);
    if let Some(msg) = order_violation(&t, v, &items) {
        let key = if msg.contains("not permitted") { "not-permitted" } else { "order" };
        let names: Vec<&str> = items.iter().map(|i| match i { Item::El(n) => n.to_str(), Item::Text => "#text" }).collect();
        out.push(Fail { mismatch: false, key: key.into(), detail: format!("{here}: {msg}; content = [{}]", names.join(", ")) });
    }
    for a in e.attributes() {
        match t.find_attribute_spec(a.attrname) {
            None => out.push(Fail { mismatch: false, key: "attr".into(), detail: format!("{here}: attribute {} is not specified for this element", a.attrname.to_str()) }),
            Some(s) => {
                if s.version & (v as u32) == 0 {
                    out.push(Fail { mismatch: false, key: "attr".into(), detail: format!("{here}: attribute {} is not permitted in {}", a.attrname.to_str(), vname(v)) });
                } else if let Err(m) = text_in_space(&a.content.to_string(), s.spec, v) {
                    out.push(Fail { mismatch: false, key: "attr-value".into(), detail: format!("{here}: attribute {}: {m}", a.attrname.to_str()) });
                }
            }
        }
    }
    for c in e.content() {
        match c {
            ElementContent::CharacterData(cd) => match t.chardata_spec() {
                Some(spec) => {
                    if let Err(m) = text_in_space(&cd.to_string(), spec, v) {
                        out.push(Fail { mismatch: false, key: "value".into(), detail: format!("{here}: {m}") });
                    }
                }
                None => out.push(Fail { mismatch: false, key: "value".into(), detail: format!("{here}: character data in an element without a value specification") }),
            },
            ElementContent::Element(s) => {
                if let Some((ct, _)) = t.find_sub_element(s.element_name(), v as u32) {
                    check_deep_mm(&s, ct, v, &here, out, mm);
                }
            }
        }
    }
    if mm {
        for f in out[first_new..].iter_mut() {
            f.mismatch = true;
        }
    }
}

/// is there an element below `e` whose recorded type differs from the type its name has at that place
fn any_type_mismatch(e: &Element, t: ElementType, v: AutosarVersion) -> bool {
    if e.element_type() != t {
        return true;
    }
    e.sub_elements().any(|s| match t.find_sub_element(s.element_name(), v as u32) {
        Some((ct, _)) => any_type_mismatch(&s, ct, v),
        None => false,
    })
}

/// structural dump (names, attributes with value kinds, content), without the root's schemaLocation
fn dump(e: &Element, out: &mut String, depth: usize) {
    let _ = write!(out, "{}<{}", "  ".repeat(depth), e.element_name().to_str());
    for a in e.attributes() {
        if a.attrname == AttributeName::xsiSchemalocation {
            continue;
        }
        let _ = write!(out, " {}={:?}", a.attrname.to_str(), a.content);
    }
    out.push_str(">\n");
    for c in e.content() {
        match c {
            ElementContent::CharacterData(cd) => {
                let _ = writeln!(out, "{}{:?}", "  ".repeat(depth + 1), cd);
            }
            ElementContent::Element(s) => dump(&s, out, depth + 1),
        }
    }
}
fn dump_str(e: &Element) -> String {
    let mut s = String::new();
    dump(e, &mut s, 0);
    s
}

// ------------------------------------------------------------------------------------------------------------------
// cases: header, calls, live state
// ------------------------------------------------------------------------------------------------------------------

#[derive(Clone, Copy, Debug, PartialEq, Eq)]
enum Site {
    Main = 0,
    Sib = 1,
    Donor = 2,
    Foreign = 3,
    Alien = 4,
}
const SITE_NAMES: [&str; 5] = ["main", "sib", "donor", "foreign", "alien"];

#[derive(Clone, Debug, PartialEq)]
enum Tgt {
    Parent,
    Child(usize),
    /// the element most recently created at that site
    Last,
}

#[derive(Clone, Debug, PartialEq)]
enum Op {
    Create(Site, ElementName),
    CreateAt(Site, ElementName, usize),
    CreateNamed(Site, ElementName, String),
    CreateNamedAt(Site, ElementName, String, usize),
    GetOrCreate(Site, ElementName),
    Remove(Site, Tgt),
    RemoveKind(Site, ElementName),
    SetData(Site, Tgt, Val),
    RemoveData(Site, Tgt),
    InsertText(Site, Tgt, String, usize),
    RemoveText(Site, Tgt, usize),
    SetAttr(Site, Tgt, AttributeName, Val),
    SetAttrStr(Site, Tgt, AttributeName, String),
    RemoveAttr(Site, Tgt, AttributeName),
    ReqAttrs(Site, Tgt),
    Fill(Site, Tgt, u64),
    /// copy into the main parent
    Copy(Site, Tgt, Option<usize>),
    /// move into the main parent
    Move(Site, Tgt, Option<usize>),
    Sort,
    CheckRange,
}

fn tgt_text(site: Site, t: &Tgt) -> String {
    match t {
        Tgt::Parent => SITE_NAMES[site as usize].to_string(),
        Tgt::Child(i) => format!("{}.child[{i}]", SITE_NAMES[site as usize]),
        Tgt::Last => format!("{}.last_created", SITE_NAMES[site as usize]),
    }
}

impl Op {
    fn text(&self) -> String {
        let sn = |s: &Site| SITE_NAMES[*s as usize];
        match self {
            Op::Create(s, n) => format!("{}.create_sub_element({})", sn(s), n.to_str()),
            Op::CreateAt(s, n, p) => format!("{}.create_sub_element_at({}, {p})", sn(s), n.to_str()),
            Op::CreateNamed(s, n, i) => format!("{}.create_named_sub_element({}, {i:?})", sn(s), n.to_str()),
            Op::CreateNamedAt(s, n, i, p) => format!("{}.create_named_sub_element_at({}, {i:?}, {p})", sn(s), n.to_str()),
            Op::GetOrCreate(s, n) => format!("{}.get_or_create_sub_element({})", sn(s), n.to_str()),
            Op::Remove(s, t) => format!("{}.remove_sub_element({})", sn(s), tgt_text(*s, t)),
            Op::RemoveKind(s, n) => format!("{}.remove_sub_element_kind({})", sn(s), n.to_str()),
            Op::SetData(s, t, v) => format!("{}.set_character_data({})", tgt_text(*s, t), v.text()),
            Op::RemoveData(s, t) => format!("{}.remove_character_data()", tgt_text(*s, t)),
            Op::InsertText(s, t, x, p) => format!("{}.insert_character_content_item({x:?}, {p})", tgt_text(*s, t)),
            Op::RemoveText(s, t, p) => format!("{}.remove_character_content_item({p})", tgt_text(*s, t)),
            Op::SetAttr(s, t, a, v) => format!("{}.set_attribute({}, {})", tgt_text(*s, t), a.to_str(), v.text()),
            Op::SetAttrStr(s, t, a, v) => format!("{}.set_attribute_string({}, {v:?})", tgt_text(*s, t), a.to_str()),
            Op::RemoveAttr(s, t, a) => format!("{}.remove_attribute({})", tgt_text(*s, t), a.to_str()),
            Op::ReqAttrs(s, t) => format!("{}.<set every required attribute to a valid value>", tgt_text(*s, t)),
            Op::Fill(s, t, seed) => format!("{}.<fill with random valid content, seed {seed}>", tgt_text(*s, t)),
            Op::Copy(s, t, None) => format!("main.create_copied_sub_element({})", tgt_text(*s, t)),
            Op::Copy(s, t, Some(p)) => format!("main.create_copied_sub_element_at({}, {p})", tgt_text(*s, t)),
            Op::Move(s, t, None) => format!("main.move_element_here({})", tgt_text(*s, t)),
            Op::Move(s, t, Some(p)) => format!("main.move_element_here_at({}, {p})", tgt_text(*s, t)),
            Op::Sort => "main.sort()".to_string(),
            Op::CheckRange => "<range / allowed oracle on main>".to_string(),
        }
    }
    fn kind(&self) -> &'static str {
        match self {
            Op::Create(..) => "create",
            Op::CreateAt(..) => "create_at",
            Op::CreateNamed(..) => "create_named",
            Op::CreateNamedAt(..) => "create_named_at",
            Op::GetOrCreate(..) => "get_or_create",
            Op::Remove(..) => "remove",
            Op::RemoveKind(..) => "remove_kind",
            Op::SetData(..) => "set_data",
            Op::RemoveData(..) => "remove_data",
            Op::InsertText(..) => "insert_text",
            Op::RemoveText(..) => "remove_text",
            Op::SetAttr(..) => "set_attr",
            Op::SetAttrStr(..) => "set_attr_str",
            Op::RemoveAttr(..) => "remove_attr",
            Op::ReqAttrs(..) => "req_attrs",
            Op::Fill(..) => "fill",
            Op::Copy(Site::Donor, ..) => "copy_other_version",
            Op::Copy(Site::Alien, ..) => "copy_alien",
            Op::Copy(..) => "copy",
            Op::Move(Site::Main, ..) => "move_reorder",
            Op::Move(Site::Foreign, ..) => "move_other_model",
            Op::Move(Site::Alien, ..) => "move_alien",
            Op::Move(..) => "move",
            Op::Sort => "sort",
            Op::CheckRange => "check_range",
        }
    }
    fn site(&self) -> Site {
        match self {
            Op::Create(s, ..) | Op::CreateAt(s, ..) | Op::CreateNamed(s, ..) | Op::CreateNamedAt(s, ..) | Op::GetOrCreate(s, ..)
            | Op::Remove(s, ..) | Op::RemoveKind(s, ..) | Op::SetData(s, ..) | Op::RemoveData(s, ..) | Op::InsertText(s, ..)
            | Op::RemoveText(s, ..) | Op::SetAttr(s, ..) | Op::SetAttrStr(s, ..) | Op::RemoveAttr(s, ..) | Op::ReqAttrs(s, ..)
            | Op::Fill(s, ..) => *s,
            _ => Site::Main,
        }
    }
}

#[derive(Clone)]
struct Hdr {
    id: u64,
    v: AutosarVersion,
    v_donor: AutosarVersion,
    tidx: usize,
    alien: Option<(usize, ElementName)>,
    /// C17 targets checked at the end of the case
    c17: Vec<AutosarVersion>,
    doc_kind: &'static str,
    /// also use handles of elements that their parent dropped without removing them
    lax: bool,
}

struct Inst {
    #[allow(dead_code)]
    model: AutosarModel,
    file: ArxmlFile,
    v: AutosarVersion,
}

impl Inst {
    fn new(v: AutosarVersion, fname: &str) -> Inst {
        let model = AutosarModel::new();
        let file = model.create_file(fname, v).expect("create_file");
        Inst { model, file, v }
    }
    fn root(&self) -> Element {
        self.model.root_element()
    }
}

struct Live {
    main: Inst,
    donor: Option<Inst>,
    foreign: Option<Inst>,
    parents: [Option<Element>; 5],
    last: [Option<Element>; 5],
    ctr: usize,
    ctr_exec: usize,
    lax: bool,
    tag: String,
}

impl Live {
    /// item names written into generated calls
    fn uniq(&mut self) -> String {
        self.ctr += 1;
        format!("{}g{}", self.tag, self.ctr)
    }
    /// item names used while executing a call (scratch elements, fill); a separate name space so that a replayed list
    /// of calls behaves exactly like the generating run
    fn uniq_exec(&mut self) -> String {
        self.ctr_exec += 1;
        format!("{}x{}", self.tag, self.ctr_exec)
    }
    fn version_of(&self, s: Site) -> AutosarVersion {
        match s {
            Site::Donor => self.donor.as_ref().map_or(self.main.v, |d| d.v),
            _ => self.main.v,
        }
    }
    fn resolve(&self, s: Site, t: &Tgt) -> Option<Element> {
        let p = self.parents[s as usize].clone()?;
        let e = match t {
            Tgt::Parent => Some(p),
            Tgt::Child(i) => p.sub_elements().nth(*i),
            Tgt::Last => self.last[s as usize].clone(),
        }?;
        // no calls on handles of removed elements (that is C12's business); `lax` cases skip the second half of the test
        match e.parent() {
            Err(_) => None,
            Ok(Some(pp)) if !self.lax && !pp.sub_elements().any(|c| c == e) => None,
            _ => Some(e),
        }
    }
}

fn set_required_attrs(ctx: &Ctx, e: &Element, v: AutosarVersion, rng: &mut Rng) -> usize {
    let mut n = 0;
    if e.element_name() == ElementName::Autosar {
        return 0;
    }
    for (a, spec, required) in e.element_type().attribute_spec_iter() {
        if required && e.attribute_value(a).is_none() {
            if let Some(val) = ctx.inside(spec, v, rng) {
                if e.set_attribute(a, val.cd()).is_ok() {
                    n += 1;
                }
            }
        }
    }
    n
}

/// create the chain of ancestors below `root`; existing elements are re-used when creation is refused
fn build_chain(ctx: &Ctx, root: &Element, chain: &[ElementName], v: AutosarVersion, live_ctr: &mut usize, tag: &str, fresh_last: bool) -> Option<Element> {
    let mut e = root.clone();
    let mut rng = Rng::new(7);
    for (i, n) in chain.iter().enumerate() {
        let last = i + 1 == chain.len();
        let (ct, _) = e.element_type().find_sub_element(*n, v as u32)?;
        let r = if ct.is_named_in_version(v) {
            *live_ctr += 1;
            e.create_named_sub_element(*n, &format!("{tag}a{live_ctr}"))
        } else {
            e.create_sub_element(*n)
        };
        e = match r {
            Ok(c) => {
                set_required_attrs(ctx, &c, v, &mut rng);
                c
            }
            Err(_) => {
                if last && fresh_last {
                    return None;
                }
                e.get_sub_element(*n)?
            }
        };
    }
    Some(e)
}

fn create_child(live: &mut Live, p: &Element, info_named: bool, n: ElementName) -> Result<Element, AutosarDataError> {
    if info_named { p.create_named_sub_element(n, &live.uniq_exec()) } else { p.create_sub_element(n) }
}

/// fill `e` with random valid content (bounded)
fn fill(ctx: &Ctx, live: &mut Live, e: &Element, v: AutosarVersion, rng: &mut Rng, depth: usize, budget: &mut usize) {
    let t = e.element_type();
    for (a, spec, required) in t.attribute_spec_iter() {
        if e.element_name() == ElementName::Autosar {
            // the namespace / schema attributes of the root are the file header, not content
            break;
        }
        let p = if required { 85 } else { 12 };
        if rng.chance(p, 100) {
            if let Some(val) = ctx.inside(spec, v, rng) {
                let _ = e.set_attribute(a, val.cd());
            }
        }
    }
    if t.content_mode() == ContentMode::Characters {
        if let Some(spec) = t.chardata_spec() {
            if e.element_name() != ElementName::ShortName && rng.chance(9, 10) {
                if let Some(val) = ctx.inside(spec, v, rng) {
                    let _ = e.set_character_data(val.cd());
                }
            }
        }
        return;
    }
    if depth == 0 || *budget == 0 {
        return;
    }
    let infos = e.list_valid_sub_elements();
    if infos.is_empty() {
        return;
    }
    for _ in 0..(1 + rng.below(3)) {
        let info = &infos[rng.below(infos.len())];
        if *budget == 0 {
            break;
        }
        if let Ok(c) = create_child(live, e, info.is_named, info.element_name) {
            *budget -= 1;
            fill(ctx, live, &c, v, rng, depth - 1, budget);
        }
    }
}

// ------------------------------------------------------------------------------------------------------------------
// oracles on the live model
// ------------------------------------------------------------------------------------------------------------------

fn lenient_reload(text: &str) -> Result<(), Fail> {
    let m2 = AutosarModel::new();
    match m2.load_buffer(text.as_bytes(), "reload.arxml", false) {
        Err(e) => Err(Fail { mismatch: false, key: "reload-error".into(), detail: format!("the serialized file does not load leniently: {e}") }),
        Ok((f2, warns)) => {
            for w in &warns {
                let harmless = matches!(w, AutosarDataError::ParserError { source: ArxmlParserError::RequiredAttributeMissing { .. }, .. });
                if !harmless {
                    return Err(Fail { mismatch: false, key: "reload-warning".into(), detail: format!("lenient load of the serialized file complains: {w}") });
                }
            }
            let t2 = f2.serialize().map_err(|e| Fail { mismatch: false, key: "reload-error".into(), detail: format!("reloaded file does not serialize: {e}") })?;
            if t2 != text {
                let (mut la, mut lb) = (text.lines(), t2.lines());
                let mut ln = 1;
                loop {
                    match (la.next(), lb.next()) {
                        (Some(a), Some(b)) if a == b => ln += 1,
                        (a, b) => {
                            return Err(Fail { mismatch: false, key: "reload-diff".into(), detail: format!("reloaded content differs at line {ln}: built {:?}, reloaded {:?}", a.unwrap_or("<end>"), b.unwrap_or("<end>")) });
                        }
                    }
                }
            }
            Ok(())
        }
    }
}

fn strict_load(text: &str) -> Result<AutosarVersion, String> {
    let m2 = AutosarModel::new();
    match m2.load_buffer(text.as_bytes(), "strict.arxml", true) {
        Ok((f, _)) => Ok(f.version()),
        Err(e) => Err(format!("{e}")),
    }
}

fn main_oracles(ctx: &Ctx, hdr: &Hdr, live: &Live, whole: bool) -> Vec<Fail> {
    let mut fails = vec![];
    if whole {
        check_deep(&live.main.root(), ElementType::ROOT, hdr.v, "", &mut fails);
    } else if let Some(p) = &live.parents[0] {
        check_deep(p, ctx.spec.types[hdr.tidx].ety, hdr.v, "..", &mut fails);
    }
    if fails.is_empty() {
        match live.main.file.serialize() {
            Ok(text) => {
                if let Err(mut f) = lenient_reload(&text) {
                    f.mismatch = any_type_mismatch(&live.main.root(), ElementType::ROOT, hdr.v);
                    fails.push(f);
                }
            }
            Err(e) => fails.push(Fail { mismatch: false, key: "serialize".into(), detail: format!("main file does not serialize: {e}") }),
        }
    }
    fails
}

/// range / allowed oracles on the main parent; scratch elements are created on the real element and removed again
fn check_range(ctx: &Ctx, hdr: &Hdr, live: &mut Live, st: &mut BTreeMap<String, u64>) -> Vec<Fail> {
    let mut fails = vec![];
    let Some(p) = live.parents[0].clone() else { return fails };
    let v = hdr.v;
    let t = ctx.spec.types[hdr.tidx].ety;
    let before = dump_str(&p);
    let items = items_of(&p);
    let count = p.content_item_count();
    let state_valid = order_violation(&t, v, &items).is_none();
    let infos = p.list_valid_sub_elements();
    let mut bump = |k: &str| *st.entry(k.to_string()).or_insert(0) += 1;
    let listed: HashSet<ElementName> = infos.iter().map(|i| i.element_name).collect();
    let scratch_remove = |p: &Element, c: Element, fails: &mut Vec<Fail>, what: &str| {
        if let Err(e) = p.remove_sub_element(c) {
            fails.push(Fail { mismatch: false, key: "scratch".into(), detail: format!("cannot remove the scratch element again ({what}): {e}") });
        }
    };
    for info in &infos {
        let n = info.element_name;
        if n == ElementName::ShortName && t.is_named() {
            // a scratch SHORT-NAME could not be removed again
            bump("range_skipped_short_name");
            continue;
        }
        let r = p.calc_element_insert_range(n, v);
        bump(if r.is_ok() { "range_ok" } else { "range_err" });
        if r.is_ok() != info.is_allowed {
            fails.push(Fail { mismatch: false, key: "allowed".into(), detail: format!("{}: is_allowed = {} but calc_element_insert_range = {:?}", n.to_str(), info.is_allowed, r.as_ref().map_err(errname)) });
        }
        // named-ness as the specification has it
        let spec_named = t.find_sub_element(n, v as u32).map(|(ct, _)| ct.is_named_in_version(v));
        if spec_named != Some(info.is_named) {
            fails.push(Fail { mismatch: false, key: "allowed".into(), detail: format!("{}: is_named = {} but the specification says {:?}", n.to_str(), info.is_named, spec_named) });
        }
        // default position
        let res = create_child(live, &p, info.is_named, n);
        bump(if res.is_ok() { "allowed_create_ok" } else { "allowed_create_err" });
        match res {
            Ok(c) => {
                if !info.is_allowed {
                    fails.push(Fail { mismatch: false, key: "allowed".into(), detail: format!("{} is reported as not allowed but can be created", n.to_str()) });
                }
                if let (Ok((lo, hi)), Some(pos)) = (&r, c.position()) {
                    if pos < *lo || pos > *hi {
                        fails.push(Fail { mismatch: false, key: "range".into(), detail: format!("{} was created at position {pos} outside the reported range {lo}..={hi}", n.to_str()) });
                    }
                }
                scratch_remove(&p, c, &mut fails, n.to_str());
            }
            Err(e) => {
                if info.is_allowed {
                    fails.push(Fail { mismatch: false, key: "allowed".into(), detail: format!("{} is reported as allowed but cannot be created: {e}", n.to_str()) });
                }
            }
        }
        // the wrong creation function must be refused
        let wrong = if info.is_named { p.create_sub_element(n) } else { p.create_named_sub_element(n, &live.uniq_exec()) };
        if let Ok(c) = wrong {
            fails.push(Fail { mismatch: false, key: "allowed".into(), detail: format!("{} (is_named = {}) can be created with the other creation function", n.to_str(), info.is_named) });
            scratch_remove(&p, c, &mut fails, n.to_str());
        }
        // every position
        for q in 0..=count + 1 {
            let expect_lib = matches!(&r, Ok((lo, hi)) if *lo <= q && q <= *hi);
            let got = if info.is_named { p.create_named_sub_element_at(n, &live.uniq_exec(), q) } else { p.create_sub_element_at(n, q) };
            bump(if got.is_ok() { "position_create_ok" } else { "position_create_err" });
            let got_ok = got.is_ok();
            if let Ok(c) = got {
                if c.position() != Some(q) {
                    fails.push(Fail { mismatch: false, key: "range".into(), detail: format!("{} created at position {q} sits at {:?}", n.to_str(), c.position()) });
                }
                scratch_remove(&p, c, &mut fails, n.to_str());
            }
            if got_ok != expect_lib {
                fails.push(Fail { mismatch: false, key: "range".into(), detail: format!("{}: creation at position {q} {} but the reported range is {:?} (content items: {count})", n.to_str(), if got_ok { "succeeds" } else { "fails" }, r.as_ref().map_err(errname)) });
            }
            if state_valid {
                let expect_spec = q <= count && {
                    let mut it = items.clone();
                    it.insert(q, Item::El(n));
                    order_violation(&t, v, &it).is_none()
                };
                if expect_spec != expect_lib {
                    let names: Vec<&str> = items.iter().map(|i| match i { Item::El(n) => n.to_str(), Item::Text => "#text" }).collect();
                    fails.push(Fail { mismatch: false, key: "range-spec".into(), detail: format!("{}: position {q} {} the specification order, but the reported range is {:?}; content = [{}]", n.to_str(), if expect_spec { "keeps" } else { "breaks" }, r.as_ref().map_err(errname), names.join(", ")) });
                }
            }
            if fails.len() > 3 {
                return fails;
            }
        }
    }
    // names that are not listed cannot be created
    let mut rng = Rng::new(hdr.id ^ count as u64);
    let mut others: Vec<ElementName> = t.sub_element_spec_iter().map(|x| x.0).filter(|n| !listed.contains(n)).collect();
    for _ in 0..4 {
        others.push(*rng.pick(&ctx.spec.names));
    }
    for n in others {
        if listed.contains(&n) {
            continue;
        }
        bump("unlisted_tried");
        for named in [false, true] {
            let r = if named { p.create_named_sub_element(n, &live.uniq_exec()) } else { p.create_sub_element(n) };
            if let Ok(c) = r {
                fails.push(Fail { mismatch: false, key: "allowed".into(), detail: format!("{} is not listed as a valid sub-element but can be created", n.to_str()) });
                scratch_remove(&p, c, &mut fails, n.to_str());
            }
        }
    }
    if fails.is_empty() && dump_str(&p) != before {
        fails.push(Fail { mismatch: false, key: "scratch".into(), detail: "the parent differs after creating and removing scratch elements".into() });
    }
    fails
}

// ------------------------------------------------------------------------------------------------------------------
// executing calls
// ------------------------------------------------------------------------------------------------------------------

fn res_str<T>(r: &Result<T, AutosarDataError>) -> String {
    match r {
        Ok(_) => "ok".to_string(),
        Err(e) => format!("err:{}", errname(e)),
    }
}

/// returns the outcome text; "n/a" when the call's operands do not exist in this run
fn apply_op(ctx: &Ctx, hdr: &Hdr, live: &mut Live, op: &Op, st: &mut BTreeMap<String, u64>, fails: &mut Vec<Fail>) -> String {
    let site = op.site();
    let si = site as usize;
    let v = live.version_of(site);
    macro_rules! need {
        ($e:expr) => {
            match $e {
                Some(x) => x,
                None => return "n/a".to_string(),
            }
        };
    }
    match op {
        Op::Create(_, n) | Op::GetOrCreate(_, n) => {
            let p = need!(live.parents[si].clone());
            let r = if matches!(op, Op::Create(..)) { p.create_sub_element(*n) } else { p.get_or_create_sub_element(*n) };
            if let Ok(c) = &r {
                live.last[si] = Some(c.clone());
            }
            res_str(&r)
        }
        Op::CreateAt(_, n, q) => {
            let p = need!(live.parents[si].clone());
            let r = p.create_sub_element_at(*n, *q);
            if let Ok(c) = &r {
                live.last[si] = Some(c.clone());
            }
            res_str(&r)
        }
        Op::CreateNamed(_, n, name) => {
            let p = need!(live.parents[si].clone());
            let r = p.create_named_sub_element(*n, name);
            if let Ok(c) = &r {
                live.last[si] = Some(c.clone());
            }
            res_str(&r)
        }
        Op::CreateNamedAt(_, n, name, q) => {
            let p = need!(live.parents[si].clone());
            let r = p.create_named_sub_element_at(*n, name, *q);
            if let Ok(c) = &r {
                live.last[si] = Some(c.clone());
            }
            res_str(&r)
        }
        Op::Remove(_, t) => {
            let p = need!(live.parents[si].clone());
            let c = need!(live.resolve(site, t));
            if *t == Tgt::Parent {
                return "n/a".to_string();
            }
            res_str(&p.remove_sub_element(c))
        }
        Op::RemoveKind(_, n) => {
            let p = need!(live.parents[si].clone());
            res_str(&p.remove_sub_element_kind(*n))
        }
        Op::SetData(_, t, val) => {
            let e = need!(live.resolve(site, t));
            res_str(&e.set_character_data(val.cd()))
        }
        Op::RemoveData(_, t) => {
            let e = need!(live.resolve(site, t));
            res_str(&e.remove_character_data())
        }
        Op::InsertText(_, t, x, q) => {
            let e = need!(live.resolve(site, t));
            res_str(&e.insert_character_content_item(x, *q))
        }
        Op::RemoveText(_, t, q) => {
            let e = need!(live.resolve(site, t));
            res_str(&e.remove_character_content_item(*q))
        }
        Op::SetAttr(_, t, a, val) => {
            let e = need!(live.resolve(site, t));
            res_str(&e.set_attribute(*a, val.cd()))
        }
        Op::SetAttrStr(_, t, a, s) => {
            let e = need!(live.resolve(site, t));
            res_str(&e.set_attribute_string(*a, s))
        }
        Op::RemoveAttr(_, t, a) => {
            let e = need!(live.resolve(site, t));
            format!("{}", e.remove_attribute(*a))
        }
        Op::ReqAttrs(_, t) => {
            let e = need!(live.resolve(site, t));
            let mut rng = Rng::new(3);
            format!("set {}", set_required_attrs(ctx, &e, v, &mut rng))
        }
        Op::Fill(_, t, seed) => {
            let e = need!(live.resolve(site, t));
            let mut rng = Rng::new(*seed);
            let mut budget = 20usize;
            fill(ctx, live, &e, v, &mut rng, 3, &mut budget);
            format!("created {}", 20 - budget)
        }
        Op::Copy(from, t, at) => {
            let p = need!(live.parents[0].clone());
            let src = need!(live.resolve(*from, t));
            let r = match at {
                None => p.create_copied_sub_element(&src),
                Some(q) => p.create_copied_sub_element_at(&src, *q),
            };
            if let Ok(c) = &r {
                live.last[0] = Some(c.clone());
            }
            res_str(&r)
        }
        Op::Move(from, t, at) => {
            let p = need!(live.parents[0].clone());
            let src = need!(live.resolve(*from, t));
            if *t == Tgt::Parent {
                return "n/a".to_string();
            }
            let inside = src.parent().ok().flatten().is_some_and(|sp| sp == p);
            let r = match at {
                None => p.move_element_here(&src),
                Some(q) => p.move_element_here_at(&src, *q),
            };
            if let Ok(c) = &r {
                live.last[0] = Some(c.clone());
            }
            if inside && r.is_ok() && at.is_some() { "ok (re-order inside main)".to_string() } else { res_str(&r) }
        }
        Op::Sort => {
            let p = need!(live.parents[0].clone());
            p.sort();
            "ok".to_string()
        }
        Op::CheckRange => {
            let f = check_range(ctx, hdr, live, st);
            let r = if f.is_empty() { "ok".to_string() } else { format!("{} violations", f.len()) };
            fails.extend(f);
            r
        }
    }
}

// ------------------------------------------------------------------------------------------------------------------
// generating calls
// ------------------------------------------------------------------------------------------------------------------

fn pick_tgt(live: &Live, site: Site, rng: &mut Rng, allow_parent: bool) -> Tgt {
    let n = live.parents[site as usize].as_ref().map_or(0, |p| p.sub_elements().count());
    let r = rng.below(10);
    if allow_parent && (r < 3 || n == 0) {
        Tgt::Parent
    } else if r < 6 && live.last[site as usize].is_some() {
        Tgt::Last
    } else {
        Tgt::Child(rng.below(n.max(1)))
    }
}

fn gen_create(ctx: &Ctx, live: &mut Live, site: Site, rng: &mut Rng, only_allowed: bool) -> Op {
    let p = live.parents[site as usize].clone().unwrap();
    let infos = p.list_valid_sub_elements();
    let count = p.content_item_count();
    let t = p.element_type();
    // choose a name
    let r = rng.below(100);
    let (n, named) = if only_allowed {
        let ok: Vec<&ValidSubElementInfo> = infos.iter().filter(|i| i.is_allowed).collect();
        if ok.is_empty() {
            return Op::Fill(site, Tgt::Parent, rng.next());
        }
        let i = rng.pick(&ok);
        (i.element_name, i.is_named)
    } else if r < 78 && !infos.is_empty() {
        // prefer allowed ones 2:1
        let ok: Vec<&ValidSubElementInfo> = infos.iter().filter(|i| i.is_allowed).collect();
        let i = if !ok.is_empty() && rng.chance(2, 3) { *rng.pick(&ok) } else { &infos[rng.below(infos.len())] };
        (i.element_name, i.is_named)
    } else if r < 92 {
        let all: Vec<ElementName> = t.sub_element_spec_iter().map(|x| x.0).collect();
        if all.is_empty() {
            (*rng.pick(&ctx.spec.names), false)
        } else {
            let n = *rng.pick(&all);
            (n, infos.iter().find(|i| i.element_name == n).map_or(rng.chance(1, 2), |i| i.is_named))
        }
    } else {
        (*rng.pick(&ctx.spec.names), rng.chance(1, 3))
    };
    // deliberately the wrong creation function now and then
    let named = if !only_allowed && rng.chance(1, 14) { !named } else { named };
    let at = if !only_allowed && rng.chance(35, 100) { Some(rng.below(count + 2)) } else { None };
    if named {
        let name = match rng.below(20) {
            0 if !only_allowed => String::new(),
            1 if !only_allowed => "1bad name".to_string(),
            2 if !only_allowed => {
                // an item name that is already in use below this parent
                p.sub_elements().filter_map(|c| c.item_name()).next().unwrap_or_else(|| live.uniq())
            }
            _ => live.uniq(),
        };
        match at {
            Some(q) => Op::CreateNamedAt(site, n, name, q),
            None => Op::CreateNamed(site, n, name),
        }
    } else {
        match at {
            Some(q) => Op::CreateAt(site, n, q),
            None if !only_allowed && rng.chance(1, 10) => Op::GetOrCreate(site, n),
            None => Op::Create(site, n),
        }
    }
}

fn gen_value_op(ctx: &Ctx, live: &Live, site: Site, rng: &mut Rng) -> Op {
    let v = live.version_of(site);
    let p = live.parents[site as usize].clone().unwrap();
    // prefer targets that can hold character data
    let mut tgt = pick_tgt(live, site, rng, p.element_type().chardata_spec().is_some());
    if let Some(e) = live.resolve(site, &tgt) {
        if e.element_type().chardata_spec().is_none() {
            let cands: Vec<usize> = p.sub_elements().enumerate().filter(|(_, c)| c.element_type().chardata_spec().is_some()).map(|(i, _)| i).collect();
            if !cands.is_empty() {
                tgt = Tgt::Child(*rng.pick(&cands));
            }
        }
    }
    let e = live.resolve(site, &tgt);
    let spec = e.as_ref().and_then(|e| e.element_type().chardata_spec());
    if let (Some(e), true) = (&e, rng.chance(1, 12)) {
        if e.element_type().content_mode() == ContentMode::Mixed {
            let n = e.content_item_count();
            return if rng.chance(2, 3) { Op::InsertText(site, tgt, rng.pick(POOL).to_string(), rng.below(n + 2)) } else { Op::RemoveText(site, tgt, rng.below(n + 1)) };
        }
        return Op::RemoveData(site, tgt);
    }
    let val = match spec {
        Some(s) => {
            if rng.chance(65, 100) { ctx.inside(s, v, rng).unwrap_or(Val::S("x".into())) } else { ctx.outside(s, v, rng) }
        }
        None => Val::S(rng.pick(POOL).to_string()),
    };
    Op::SetData(site, tgt, val)
}

fn gen_attr_op(ctx: &Ctx, live: &Live, site: Site, rng: &mut Rng) -> Op {
    let v = live.version_of(site);
    let tgt = pick_tgt(live, site, rng, true);
    let Some(e) = live.resolve(site, &tgt) else { return Op::ReqAttrs(site, tgt) };
    if e.element_name() == ElementName::Autosar {
        // the namespace / schema attributes of the root are the file header, not content
        return Op::ReqAttrs(site, tgt);
    }
    let t = e.element_type();
    let specs: Vec<(AttributeName, &'static CharacterDataSpec, bool)> = t.attribute_spec_iter().collect();
    let r = rng.below(100);
    if r < 12 {
        return Op::ReqAttrs(site, tgt);
    }
    if r < 28 {
        let present: Vec<AttributeName> = e.attributes().map(|a| a.attrname).collect();
        let a = if !present.is_empty() && rng.chance(4, 5) { *rng.pick(&present) } else { *rng.pick(&ctx.spec.attrs) };
        return Op::RemoveAttr(site, tgt, a);
    }
    if specs.is_empty() || rng.chance(1, 10) {
        return Op::SetAttrStr(site, tgt, *rng.pick(&ctx.spec.attrs), rng.pick(POOL).to_string());
    }
    let (a, spec, _) = specs[rng.below(specs.len())];
    let val = if rng.chance(65, 100) { ctx.inside(spec, v, rng).unwrap_or(Val::S("x".into())) } else { ctx.outside(spec, v, rng) };
    if rng.chance(1, 3) {
        Op::SetAttrStr(site, tgt, a, val.cd().to_string())
    } else {
        Op::SetAttr(site, tgt, a, val)
    }
}

fn gen_op(ctx: &Ctx, hdr: &Hdr, live: &mut Live, rng: &mut Rng, step: usize, total: usize) -> Op {
    let setup = 10;
    if step < setup {
        // populate the other sites
        let site = [Site::Sib, Site::Donor, Site::Foreign, Site::Alien, Site::Main][step % 5];
        if live.parents[site as usize].is_some() && site != Site::Main {
            if site == Site::Alien {
                let n = hdr.alien.unwrap().1;
                let has = live.parents[4].as_ref().unwrap().sub_elements().any(|c| c.element_name() == n);
                if !has || step < 5 {
                    let named = live.parents[4].as_ref().unwrap().list_valid_sub_elements().iter().find(|i| i.element_name == n).is_some_and(|i| i.is_named);
                    return if named { Op::CreateNamed(site, n, live.uniq()) } else { Op::Create(site, n) };
                }
                return Op::Fill(site, Tgt::Last, rng.next());
            }
            let nkids = live.parents[site as usize].as_ref().unwrap().sub_elements().count();
            return if step < 5 || nkids == 0 { gen_create(ctx, live, site, rng, true) } else { Op::Fill(site, Tgt::Last, rng.next()) };
        }
    }
    if step == setup || step + 1 == total || step == (setup + total) / 2 {
        return Op::CheckRange;
    }
    let p = live.parents[0].clone().unwrap();
    let count = p.content_item_count();
    let nkids = p.sub_elements().count();
    let r = rng.below(100);
    let avail = |s: Site| live.parents[s as usize].as_ref().is_some_and(|p| p.sub_elements().count() > 0);
    match r {
        _ if count >= 10 && r < 40 => Op::Remove(Site::Main, Tgt::Child(rng.below(nkids.max(1)))),
        0..=29 => gen_create(ctx, live, Site::Main, rng, false),
        30..=37 => {
            if rng.chance(1, 4) {
                let names: Vec<ElementName> = p.sub_elements().map(|c| c.element_name()).collect();
                let n = if names.is_empty() { *rng.pick(&ctx.spec.names) } else { *rng.pick(&names) };
                Op::RemoveKind(Site::Main, n)
            } else {
                Op::Remove(Site::Main, if rng.chance(1, 4) { Tgt::Last } else { Tgt::Child(rng.below(nkids.max(1))) })
            }
        }
        38..=51 => gen_value_op(ctx, live, Site::Main, rng),
        52..=63 => gen_attr_op(ctx, live, Site::Main, rng),
        64..=67 => Op::Fill(Site::Main, if rng.chance(1, 2) { Tgt::Last } else { Tgt::Child(rng.below(nkids.max(1))) }, rng.next()),
        68..=79 => {
            // copy
            let mut sites = vec![Site::Main];
            for s in [Site::Sib, Site::Donor, Site::Donor, Site::Foreign] {
                if avail(s) {
                    sites.push(s);
                }
            }
            if avail(Site::Alien) && rng.chance(1, 3) {
                sites = vec![Site::Alien];
            }
            let s = *rng.pick(&sites);
            let allow_parent = rng.chance(1, 8);
            let tgt = if s == Site::Alien { Tgt::Last } else { pick_tgt(live, s, rng, allow_parent) };
            let at = if rng.chance(2, 5) { Some(rng.below(count + 2)) } else { None };
            Op::Copy(s, tgt, at)
        }
        80..=91 => {
            // move
            // re-ordering inside the parent is drawn rarely (known defect, see `classify`)
            let mut sites = if rng.chance(1, 12) { vec![Site::Main] } else { vec![] };
            for s in [Site::Sib, Site::Sib, Site::Foreign] {
                if avail(s) {
                    sites.push(s);
                }
            }
            if avail(Site::Alien) && rng.chance(1, 3) {
                sites = vec![Site::Alien];
            }
            if sites.is_empty() {
                return gen_create(ctx, live, Site::Main, rng, false);
            }
            let s = *rng.pick(&sites);
            let tgt = if s == Site::Alien { Tgt::Last } else { pick_tgt(live, s, rng, false) };
            let at = if s == Site::Main || rng.chance(2, 5) { Some(rng.below(count + 2)) } else { None };
            Op::Move(s, tgt, at)
        }
        92 if rng.chance(1, 8) => Op::Sort,
        92..=95 => Op::CheckRange,
        _ => {
            // keep the other sites stocked
            let s = *rng.pick(&[Site::Sib, Site::Donor, Site::Foreign]);
            if live.parents[s as usize].is_some() { gen_create(ctx, live, s, rng, true) } else { gen_create(ctx, live, Site::Main, rng, false) }
        }
    }
}

// ------------------------------------------------------------------------------------------------------------------
// C17 on a live file
// ------------------------------------------------------------------------------------------------------------------

fn relabel(text: &str, v1: AutosarVersion, v2: AutosarVersion) -> String {
    text.replacen(v1.filename(), v2.filename(), 1)
}

fn compat_text(errs: &[CompatibilityError]) -> String {
    let mut parts = vec![];
    for e in errs.iter().take(4) {
        parts.push(match e {
            CompatibilityError::IncompatibleElement { element, version_mask } => format!("element {} mask {version_mask:#x}", element.xml_path()),
            CompatibilityError::IncompatibleAttribute { element, attribute, version_mask } => format!("attribute {} of {} mask {version_mask:#x}", attribute.to_str(), element.xml_path()),
            CompatibilityError::IncompatibleAttributeValue { element, attribute, attribute_value, version_mask } => format!("value {attribute_value:?} of attribute {} of {} mask {version_mask:#x}", attribute.to_str(), element.xml_path()),
        });
    }
    if errs.len() > 4 {
        parts.push(format!("... {} in total", errs.len()));
    }
    parts.join("; ")
}

struct C17Row {
    req: String,
    ans: String,
}

/// oracles A, B, C for one file (single- or multi-file model) and the given targets.  `text` is what the file
/// serializes to and is known to load strictly as `v1`.
fn c17_file(file: &ArxmlFile, root: &Element, text: &str, targets: &[AutosarVersion], st: &mut BTreeMap<String, u64>, rows: &mut Vec<C17Row>, fails: &mut Vec<Fail>, log: &mut Vec<String>) {
    let v1 = file.version();
    let doc = hash_str(text) & 0xffff_ffff;
    let mut lenient_done = false;
    for &v2 in targets {
        let mut bump = |k: String| *st.entry(k).or_insert(0) += 1;
        let (errs, mask) = file.check_version_compatibility(v2);
        let compat = errs.is_empty();
        let rel = relabel(text, v1, v2);
        let strict = strict_load(&rel);
        bump(format!("c17_pair_compat_{}", if compat { "yes" } else { "no" }));
        bump(format!("c17_pair_strict_{}", if strict.is_ok() { "ok" } else { "err" }));
        if v2 != v1 {
            bump(format!("c17_dir_{}", if v2 > v1 { "up" } else { "down" }));
        }
        let where_ = format!("{} -> {}", vname(v1), vname(v2));
        if compat != strict.is_ok() {
            fails.push(Fail {
                mismatch: false,
                key: "c17-A".into(),
                detail: match &strict {
                    Ok(_) => format!("{where_}: the check lists [{}] but the relabelled text loads strictly", compat_text(&errs)),
                    Err(e) => format!("{where_}: the check lists nothing but the relabelled text fails strict validation: {e}"),
                },
            });
        }
        if (mask & v2 as u32 != 0) != compat {
            fails.push(Fail { mismatch: false, key: "c17-B".into(), detail: format!("{where_}: returned mask {mask:#x} {} the target, but the check lists {} incompatibilities [{}]", if mask & v2 as u32 != 0 { "contains" } else { "lacks" }, errs.len(), compat_text(&errs)) });
        }
        drop(errs);
        if !compat && v2 != v1 && !lenient_done {
            // the diagonal of the version pairs with content that is NOT valid for the file's own version
            lenient_done = true;
            c17_lenient_diagonal(&rel, v1, v2, st, rows, fails, log);
            if !fails.is_empty() {
                return;
            }
        }
        let before = dump_str(root);
        let r = file.set_version(v2);
        let after = dump_str(root);
        if r.is_ok() != compat {
            fails.push(Fail { mismatch: false, key: "c17-C".into(), detail: format!("{where_}: set_version {} although the check lists {}", res_str(&r), if compat { "nothing" } else { "incompatibilities" }) });
        }
        if before != after {
            fails.push(Fail { mismatch: false, key: "c17-C".into(), detail: format!("{where_}: set_version ({}) altered the content", res_str(&r)) });
        }
        let mut set_ans = "err";
        if r.is_ok() {
            set_ans = "ok";
            if file.version() != v2 {
                fails.push(Fail { mismatch: false, key: "c17-C".into(), detail: format!("{where_}: set_version ok but the file reports {}", vname(file.version())) });
            }
            match file.serialize() {
                Ok(t2) => {
                    if t2 != rel {
                        fails.push(Fail { mismatch: false, key: "c17-C".into(), detail: format!("{where_}: after set_version the file serializes to something else than the relabelled text") });
                    }
                    match strict_load(&t2) {
                        Ok(vv) if vv == v2 => {}
                        Ok(vv) => fails.push(Fail { mismatch: false, key: "c17-C".into(), detail: format!("{where_}: the re-serialized file loads as {}", vname(vv)) }),
                        Err(e) => fails.push(Fail { mismatch: false, key: "c17-C".into(), detail: format!("{where_}: after a successful set_version the re-serialized file fails strict validation: {e}") }),
                    }
                }
                Err(e) => fails.push(Fail { mismatch: false, key: "c17-C".into(), detail: format!("{where_}: serialize after set_version: {e}") }),
            }
            // back to v1: the content is known to be strictly valid there
            if let Err(e) = file.set_version(v1) {
                fails.push(Fail { mismatch: false, key: "c17-C".into(), detail: format!("{where_}: cannot set the version back to {} although the text loads strictly in it: {e}", vname(v1)) });
                log.push(format!("c17 {where_}: revert failed"));
                return;
            }
        } else if file.version() != v1 {
            fails.push(Fail { mismatch: false, key: "c17-C".into(), detail: format!("{where_}: set_version failed but the file reports {}", vname(file.version())) });
        }
        let ans = format!("errs={} mask={mask:#x} strict={} set={set_ans}", if compat { 0 } else { 1 }, if strict.is_ok() { "ok" } else { "err" });
        log.push(format!("c17 {where_}: {ans}"));
        rows.push(C17Row { req: format!("compat doc={doc:08x} {where_}"), ans });
        if !fails.is_empty() {
            return;
        }
    }
}

/// C17 where the file's content is not valid for the file's OWN version: `rel` (a text that is strictly valid as `v1`,
/// relabelled `v2`, for which the check listed incompatibilities) is loaded leniently; the resulting file is labelled `v2`
/// and keeps what `v2` does not permit.  Oracles A, B, C for the pair (v2, v2): the check for the file's own version lists
/// nothing <=> its text loads strictly, the mask contains v2 <=> nothing listed, set_version(v2) succeeds <=> nothing listed
/// and changes nothing.
fn c17_lenient_diagonal(rel: &str, v1: AutosarVersion, v2: AutosarVersion, st: &mut BTreeMap<String, u64>, rows: &mut Vec<C17Row>, fails: &mut Vec<Fail>, log: &mut Vec<String>) {
    let mut bump = |k: &str| *st.entry(k.to_string()).or_insert(0) += 1;
    let model = AutosarModel::new();
    let file = match model.load_buffer(rel.as_bytes(), "lenient.arxml", false) {
        Ok((f, _)) => f,
        Err(e) => {
            bump("c17_lenient_load_refused");
            log.push(format!("c17 lenient {} relabelled {}: load refused: {e}", vname(v1), vname(v2)));
            return;
        }
    };
    bump("c17_lenient_docs");
    let v = file.version();
    let where_ = format!("{} relabelled {} and loaded leniently, {} -> {}", vname(v1), vname(v2), vname(v), vname(v));
    if v != v2 {
        fails.push(Fail { mismatch: false, key: "c17-C".into(), detail: format!("{where_}: the leniently loaded file reports another version than its label") });
        return;
    }
    let root = model.root_element();
    let (errs, mask) = file.check_version_compatibility(v);
    let compat = errs.is_empty();
    let strict = match file.serialize() {
        Ok(t) => strict_load(&t),
        Err(e) => Err(format!("serialize: {e}")),
    };
    bump(if compat { "c17_lenient_diag_compat_yes" } else { "c17_lenient_diag_compat_no" });
    if compat != strict.is_ok() {
        fails.push(Fail {
            mismatch: false,
            key: "c17-A".into(),
            detail: match &strict {
                Ok(_) => format!("{where_}: the check lists [{}] but the text of the file loads strictly", compat_text(&errs)),
                Err(e) => format!("{where_}: the check lists nothing but the text of the file fails strict validation: {e}"),
            },
        });
    }
    if (mask & v as u32 != 0) != compat {
        fails.push(Fail { mismatch: false, key: "c17-B".into(), detail: format!("{where_}: returned mask {mask:#x} {} the target, but the check lists {} incompatibilities [{}]", if mask & v as u32 != 0 { "contains" } else { "lacks" }, errs.len(), compat_text(&errs)) });
    }
    drop(errs);
    let before = dump_str(&root);
    let r = file.set_version(v);
    let after = dump_str(&root);
    bump(if r.is_ok() { "c17_lenient_diag_set_ok" } else { "c17_lenient_diag_set_err" });
    if r.is_ok() != compat {
        fails.push(Fail { mismatch: false, key: "c17-C".into(), detail: format!("{where_}: set_version to the version the file already has {} although the check lists {}", res_str(&r), if compat { "nothing" } else { "incompatibilities" }) });
    }
    if before != after {
        fails.push(Fail { mismatch: false, key: "c17-C".into(), detail: format!("{where_}: set_version ({}) altered the content", res_str(&r)) });
    }
    if file.version() != v {
        fails.push(Fail { mismatch: false, key: "c17-C".into(), detail: format!("{where_}: after set_version ({}) the file reports {}", res_str(&r), vname(file.version())) });
    }
    let ans = format!("errs={} mask={mask:#x} strict={} set={}", if compat { 0 } else { 1 }, if strict.is_ok() { "ok" } else { "err" }, if r.is_ok() { "ok" } else { "err" });
    log.push(format!("c17 {where_}: {ans}"));
    rows.push(C17Row { req: format!("compat lenient doc={:08x} {} -> {}", hash_str(rel) & 0xffff_ffff, vname(v), vname(v)), ans });
}

// ------------------------------------------------------------------------------------------------------------------
// running one case
// ------------------------------------------------------------------------------------------------------------------

enum Src<'a> {
    Gen(&'a mut Rng, usize),
    Replay(&'a [Op]),
}

#[derive(Default)]
struct CaseOut {
    log: Vec<String>,
    ops: Vec<Op>,
    fails: Vec<Fail>,
    st: BTreeMap<String, u64>,
    rows: Vec<C17Row>,
    n_ok: usize,
    n_rej: usize,
    final_text: Option<String>,
    strict_ok: bool,
}

fn exec_case(ctx: &Ctx, hdr: &Hdr, mut src: Src, out: &mut CaseOut) {
    let g = ctx.graph(hdr.v);
    let chain = g.chain(hdr.tidx);
    let tag = format!("c{}", hdr.id);
    let main = Inst::new(hdr.v, "main.arxml");
    let mut ctr = 0usize;
    out.log.push(format!("case {}: version {} parent type {} ({:?}) chain /AUTOSAR/{}", hdr.id, vname(hdr.v), ctx.spec.types[hdr.tidx].name.to_str(), ctx.spec.types[hdr.tidx].ety, chain.iter().map(|n| n.to_str()).collect::<Vec<_>>().join("/")));
    let Some(p) = build_chain(ctx, &main.root(), &chain, hdr.v, &mut ctr, &tag, true) else {
        out.log.push("the parent cannot be built".into());
        *out.st.entry("case_unbuildable".into()).or_insert(0) += 1;
        return;
    };
    if p.element_type() != ctx.spec.types[hdr.tidx].ety {
        out.fails.push(Fail { mismatch: false, key: "chain".into(), detail: format!("the element built along the chain has type {:?}", p.element_type()) });
        return;
    }
    let sib = build_chain(ctx, &main.root(), &chain, hdr.v, &mut ctr, &tag, true);
    let alien = hdr.alien.and_then(|(ti, _)| build_chain(ctx, &main.root(), &g.chain(ti), hdr.v, &mut ctr, &tag, false));
    let (mut donor, mut donor_p) = (None, None);
    if hdr.v_donor != hdr.v {
        if let Some(gd) = ctx.graphs.get(&(hdr.v_donor as u32)) {
            if gd.reach[hdr.tidx] {
                let d = Inst::new(hdr.v_donor, "donor.arxml");
                donor_p = build_chain(ctx, &d.root(), &gd.chain(hdr.tidx), hdr.v_donor, &mut ctr, &format!("{tag}d"), true);
                // the donor's parent may have another type in its version; it is still a source of children
                donor = Some(d);
            }
        }
    }
    let foreign = Inst::new(hdr.v, "foreign.arxml");
    let foreign_p = build_chain(ctx, &foreign.root(), &chain, hdr.v, &mut ctr, &format!("{tag}f"), true);
    out.log.push(format!("sites: sib={} donor={}({}) foreign={} alien={}", sib.is_some(), donor_p.is_some(), vname(hdr.v_donor), foreign_p.is_some(), hdr.alien.map_or("-".to_string(), |(ti, n)| format!("{}/{}:{}", ctx.spec.types[ti].name.to_str(), n.to_str(), alien.is_some()))));
    let mut live = Live { main, donor, foreign: Some(foreign), parents: [Some(p), sib, donor_p, foreign_p, alien], last: [None, None, None, None, None], ctr, ctr_exec: 0, lax: hdr.lax, tag };
    let _ = &live.foreign;
    let total = match &src {
        Src::Gen(_, n) => *n,
        Src::Replay(o) => o.len(),
    };
    let mut step = 0;
    loop {
        let op = match &mut src {
            Src::Gen(rng, n) => {
                if step >= *n {
                    break;
                }
                gen_op(ctx, hdr, &mut live, rng, step, total)
            }
            Src::Replay(o) => {
                if step >= o.len() {
                    break;
                }
                o[step].clone()
            }
        };
        step += 1;
        PROGRESS.fetch_add(1, Ordering::Relaxed);
        out.ops.push(op.clone());
        out.log.push(op.text());
        if let Ok(mut c) = CURRENT.try_lock() {
            c.clear();
            c.push_str(&out.log.join("\n"));
        }
        let res = apply_op(ctx, hdr, &mut live, &op, &mut out.st, &mut out.fails);
        if let Some(l) = out.log.last_mut() {
            l.push_str(" -> ");
            l.push_str(&res);
        }
        let class = if res == "n/a" { "na".to_string() } else if res.starts_with("err:") { res.clone() } else if res == "false" { "false".to_string() } else if res.contains("violations") { "violations".to_string() } else { "ok".to_string() };
        *out.st.entry(format!("op_{}_{}", op.kind(), class)).or_insert(0) += 1;
        if class == "ok" {
            out.n_ok += 1;
        } else if class != "na" {
            out.n_rej += 1;
        }
        // oracles after every call that touched the main model
        if res != "n/a" && !matches!(op.site(), Site::Donor | Site::Foreign) && op != Op::CheckRange && out.fails.is_empty() {
            out.fails.extend(main_oracles(ctx, hdr, &live, false));
            *out.st.entry("reloads".into()).or_insert(0) += 1;
        }
        if !out.fails.is_empty() {
            break;
        }
    }
    if out.fails.is_empty() {
        out.fails.extend(main_oracles(ctx, hdr, &live, true));
    }
    if let (Some(p), "edited") = (&live.parents[0], hdr.doc_kind) {
        *out.st.entry(format!("final_children_{}", p.sub_elements().count().min(9))).or_insert(0) += 1;
    }
    if out.fails.is_empty() && !hdr.c17.is_empty() {
        // C17 wants documents that are strictly valid in their own version: set what was never set
        let mut rng = Rng::new(5);
        for (_, e) in live.main.root().elements_dfs() {
            set_required_attrs(ctx, &e, hdr.v, &mut rng);
        }
        match live.main.file.serialize() {
            Ok(text) => match strict_load(&text) {
                Ok(_) => {
                    out.strict_ok = true;
                    *out.st.entry(format!("c17_doc_{}", hdr.doc_kind)).or_insert(0) += 1;
                    c17_file(&live.main.file, &live.main.root(), &text, &hdr.c17, &mut out.st, &mut out.rows, &mut out.fails, &mut out.log);
                }
                Err(e) => {
                    *out.st.entry("c17_doc_skipped_not_strict".into()).or_insert(0) += 1;
                    out.log.push(format!("c17 skipped, not strictly valid in its own version: {e}"));
                }
            },
            Err(e) => out.fails.push(Fail { mismatch: false, key: "serialize".into(), detail: format!("{e}") }),
        }
    }
    out.final_text = live.main.file.serialize().ok();
}

/// run a case guarded against panics; a panic becomes a failure with key "panic"
fn run_guarded(ctx: &Ctx, hdr: &Hdr, src: Src) -> CaseOut {
    let mut out = CaseOut::default();
    let r = std::panic::catch_unwind(AssertUnwindSafe(|| exec_case(ctx, hdr, src, &mut out)));
    if let Err(p) = r {
        let msg = p.downcast_ref::<String>().cloned().or_else(|| p.downcast_ref::<&str>().map(|s| s.to_string())).unwrap_or_default();
        let loc = LAST_PANIC.lock().map(|l| l.clone()).unwrap_or_default();
        out.fails.insert(0, Fail { mismatch: false, key: "panic".into(), detail: format!("panic during the last call: {msg}{loc}") });
    }
    out
}

fn shrink(ctx: &Ctx, hdr: &Hdr, ops: Vec<Op>, key: &str) -> (Vec<Op>, CaseOut) {
    let mut ops = ops;
    let mut best = run_guarded(ctx, hdr, Src::Replay(&ops));
    if best.fails.first().map(|f| f.key.as_str()) != Some(key) {
        return (ops, best);
    }
    ops = best.ops.clone();
    let mut runs = 0;
    for _pass in 0..2 {
        let mut i = ops.len();
        while i > 0 && runs < 400 {
            i -= 1;
            let mut cand = ops.clone();
            cand.remove(i);
            runs += 1;
            let o = run_guarded(ctx, hdr, Src::Replay(&cand));
            if o.fails.first().map(|f| f.key.as_str()) == Some(key) {
                ops = o.ops.clone();
                i = i.min(ops.len());
                best = o;
            }
        }
    }
    (ops, best)
}

// ------------------------------------------------------------------------------------------------------------------
// driver
// ------------------------------------------------------------------------------------------------------------------

struct Reporter {
    out: String,
    n_files: usize,
    n_shrunk: usize,
    per_sig: HashMap<String, usize>,
}

fn prop_of(key: &str) -> &'static str {
    if key.starts_with("c17") { "C17" } else { "C07" }
}

impl Reporter {
    /// report the first failure of a finished case (shrunk when affordable)
    fn report(&mut self, ctx: &Ctx, k: &mut Sink, hdr: &Hdr, co: CaseOut) {
        let Some(first) = co.fails.first().cloned() else { return };
        let (ops, best) = if self.n_shrunk < 5000 && co.ops.len() > 1 {
            self.n_shrunk += 1;
            shrink(ctx, hdr, co.ops.clone(), &first.key)
        } else {
            (co.ops.clone(), co)
        };
        let f = best.fails.first().cloned().unwrap_or(first);
        let sig = classify(&best, &f);
        let family = sig.map_or(format!("?{}", f.key), |s| s.to_string());
        let seen = self.per_sig.entry(family).or_insert(0);
        *seen += 1;
        let mut file = String::from("-");
        if *seen <= 3 || (sig.is_none() && self.n_files < 60) {
            self.n_files += 1;
            file = format!("fail_{}.txt", self.n_files);
            let mut text = String::new();
            let _ = writeln!(text, "# scenario edits, property {}: {}{}\n# {}", prop_of(&f.key), f.key, sig.map_or(String::new(), |s| format!(" [sig={s}]")), f.detail);
            let _ = writeln!(text, "# minimised list of calls ({}); sites: main = parent under test, sib = second instance in the same model,", ops.len());
            let _ = writeln!(text, "# donor = instance in a model of version {}, foreign = instance in another model of the same version, alien = parent of another type", vname(hdr.v_donor));
            for l in &best.log {
                let _ = writeln!(text, "{l}");
            }
            for (i, x) in best.fails.iter().enumerate() {
                let _ = writeln!(text, "# violation {i}: [{}] {}", x.key, x.detail);
            }
            if let Some(t) = &best.final_text {
                let _ = writeln!(text, "# main file at the end:\n{t}");
            }
            let _ = std::fs::write(format!("{}/{}", self.out, file), text);
        }
        let p = prop_of(&f.key);
        match sig {
            Some(sig) => {
                k.stat(&format!("known_{sig}"));
                let p = if sig.starts_with("c12") { "C12" } else { p };
                k.fail(format!("[{p}][sig={sig}] {}: {} replay={file}", f.key, f.detail))
            }
            None => {
                if f.key == "panic" {
                    k.fail(format!("[C12] {} replay={file}", f.detail));
                }
                k.fail(format!("[{p}] {}: {} replay={file}", f.key, f.detail))
            }
        }
    }
}

/// Defects of the unchanged library that this scenario found; they are reported under a stable signature
/// (`co` is the minimised case: every call in it is needed for the failure).
///
/// * `c07:copy-move-keeps-element-type-of-source-parent`: create_copied_sub_element / move_element_here only check that
///   the element NAME may be inserted; an element of the same name taken from a parent where that name has another type
///   keeps its type and content (e.g. CATEGORY with another pattern, a DEST enum of another reference, sub-elements
///   below what is a character element here).  Needs a type mismatch between recorded and specified type.
/// * `c07:copy-across-versions-keeps-element-type-of-source-version` / `...-arrangement-of-source-version`: deep_copy
///   filters by existence in the destination version only; type, order and multiplicity follow the source version.
/// * `c07:copy-from-version-where-element-has-no-short-name`: the copy of an element that is unnamed in the source
///   version but identifiable in the destination version has no SHORT-NAME.
/// * `c07:move-within-parent-position-is-insert-index`: move_element_here_at inside the same parent treats the
///   position as final index although the range was computed as insertion index (element lands behind its successor).
/// * `c07:sort-uses-all-version-order`: sort() orders by find_sub_element(name, u32::MAX) instead of the file version.
/// * `c07:set-character-data-on-named-mixed-element-drops-short-name`: set_character_data on an identifiable element
///   with mixed content replaces all content including the SHORT-NAME.
/// * `c12:move-at-of-child-dropped-by-set-character-data-panics`: such dropped children keep their parent link;
///   move_element_here_at with one of them unwraps a failed position lookup (only generated in `lax` cases).
/// * `c17:attribute-unknown-to-target-element-type-not-reported`: an attribute that the element type used in the
///   target version does not have at all is skipped by the check (strict load: unknown attribute).
/// * `c17:short-name-required-only-in-target-version-not-reported`: element identifiable only in the target version.
/// * `c17:value-not-checked-against-pattern-of-target-element-type`: only enum values are re-validated.
fn classify(co: &CaseOut, f: &Fail) -> Option<&'static str> {
    let structural = matches!(f.key.as_str(), "order" | "not-permitted" | "value" | "attr" | "attr-value" | "reload-error" | "reload-warning" | "reload-diff")
        || (f.key == "panic" && f.detail.contains("index out of bounds") && co.log.iter().any(|l| l.starts_with("c17 ")));
    let ok_line = |i: usize| co.log.iter().filter(|l| !l.starts_with("c17 ") && !l.starts_with("case ") && !l.starts_with("sites:")).nth(i).is_some_and(|l| l.contains("-> ok"));
    for (i, op) in co.ops.iter().enumerate() {
        match op {
            Op::Copy(Site::Alien, ..) | Op::Move(Site::Alien, ..) if structural && ok_line(i) && (f.mismatch || f.key == "panic") => return Some("c07:copy-move-keeps-element-type-of-source-parent"),
            _ => {}
        }
    }
    if f.key == "reload-warning" && f.detail.contains("required sub element SHORT-NAME was not found") && co.ops.iter().any(|o| matches!(o, Op::Copy(Site::Donor, ..))) {
        return Some("c07:copy-from-version-where-element-has-no-short-name");
    }
    for (i, op) in co.ops.iter().enumerate() {
        if matches!(op, Op::Copy(Site::Donor, ..)) && structural && ok_line(i) {
            if f.mismatch {
                return Some("c07:copy-across-versions-keeps-element-type-of-source-version");
            }
            // same element type, but its sub-element names select other entries (order, multiplicity, group) in the
            // destination version; the violation lies inside the copied subtree, not in the parent under test
            let inside_copy = f.detail.split(':').next().is_some_and(|p| p.matches('/').count() >= 2);
            if f.key == "order" && inside_copy {
                return Some("c07:copy-across-versions-keeps-arrangement-of-source-version");
            }
        }
    }
    if f.key == "reload-warning" && f.detail.contains("required sub element SHORT-NAME was not found") && co.ops.iter().any(|o| matches!(o, Op::SetData(..))) {
        return Some("c07:set-character-data-on-named-mixed-element-drops-short-name");
    }
    if f.key == "panic" && f.detail.contains("Option::unwrap()") && matches!(co.ops.last(), Some(Op::Move(_, _, Some(_)))) && co.ops.iter().any(|o| matches!(o, Op::SetData(_, Tgt::Parent, _))) {
        return Some("c12:move-at-of-child-dropped-by-set-character-data-panics");
    }
    if f.key == "order" {
        if co.log.iter().any(|l| l.ends_with("-> ok (re-order inside main)")) {
            return Some("c07:move-within-parent-position-is-insert-index");
        }
        if co.ops.iter().any(|o| *o == Op::Sort) {
            return Some("c07:sort-uses-all-version-order");
        }
    }
    if (f.key == "c17-A" || f.key == "c17-C") && !f.detail.contains("the check lists [") {
        if f.detail.contains("contains unknown attribute") {
            return Some("c17:attribute-unknown-to-target-element-type-not-reported");
        }
        if f.detail.contains("required sub element SHORT-NAME was not found") {
            return Some("c17:short-name-required-only-in-target-version-not-reported");
        }
        if f.detail.contains("is not matched by the validation regex") {
            return Some("c17:value-not-checked-against-pattern-of-target-element-type");
        }
    }
    None
}

fn merge_stats(k: &mut Sink, st: &BTreeMap<String, u64>) {
    for (key, n) in st {
        *k.stats.entry(key.clone()).or_insert(0) += n;
    }
}

fn ops_hash(ops: &[Op]) -> u64 {
    let mut s = String::new();
    for o in ops {
        s.push_str(&o.text());
        s.push(';');
    }
    hash_str(&s)
}

fn pick_alien(ctx: &Ctx, g: &VGraph, tidx: usize, rng: &mut Rng) -> Option<(usize, ElementName)> {
    let t = ctx.spec.types[tidx].ety;
    let subs: Vec<(ElementName, ElementType)> = t.sub_element_spec_iter().filter(|x| x.2 & (g.v as u32) != 0).map(|x| (x.0, x.1)).collect();
    if subs.is_empty() {
        return None;
    }
    for _ in 0..6 {
        let (n, ct) = subs[rng.below(subs.len())];
        let typ = crate::specwalk::ety_ids(&ct).1;
        let Some(cands) = ctx.spec.by_name.get(&n) else { continue };
        let other: Vec<usize> = cands.iter().filter(|(ti, ct2, m)| *ti != tidx && m & (g.v as u32) != 0 && g.reach[*ti] && crate::specwalk::ety_ids(ct2).1 != typ).map(|x| x.0).collect();
        if !other.is_empty() {
            return Some((*rng.pick(&other), n));
        }
    }
    None
}

fn targets_for(mask: u32, v1: AutosarVersion, n: usize, rng: &mut Rng) -> Vec<AutosarVersion> {
    if n >= ALL_VERSIONS.len() {
        return ALL_VERSIONS.to_vec();
    }
    let mut t: Vec<AutosarVersion> = vec![];
    let add = |v: AutosarVersion, t: &mut Vec<AutosarVersion>| {
        if !t.contains(&v) && t.len() < n {
            t.push(v);
        }
    };
    // the borders of the item's version mask are the interesting targets
    let inside: Vec<usize> = (0..21).filter(|i| mask & (1 << i) != 0).collect();
    if let (Some(&lo), Some(&hi)) = (inside.first(), inside.last()) {
        if lo > 0 {
            add(ALL_VERSIONS[lo - 1], &mut t);
        }
        if hi < 20 {
            add(ALL_VERSIONS[hi + 1], &mut t);
        }
        add(ALL_VERSIONS[lo], &mut t);
        add(ALL_VERSIONS[hi], &mut t);
        // holes in the mask
        for i in lo..hi {
            if mask & (1 << i) == 0 {
                add(ALL_VERSIONS[i], &mut t);
                break;
            }
        }
    }
    add(ALL_VERSIONS[0], &mut t);
    add(AutosarVersion::LATEST, &mut t);
    add(v1, &mut t);
    while t.len() < n {
        add(*rng.pick(&ALL_VERSIONS), &mut t);
    }
    t
}

/// purpose-built C17 documents: (parent type, calls, version mask of the partial item, kind)
struct Partial {
    tidx: usize,
    ops: Vec<Op>,
    mask: u32,
    kind: &'static str,
}

fn partial_items(ctx: &Ctx) -> Vec<Partial> {
    let mut out = vec![];
    for (i, ti) in ctx.spec.types.iter().enumerate() {
        let t = ti.ety;
        for (n, ct, mask, named) in t.sub_element_spec_iter() {
            if mask & ALL_MASK != ALL_MASK {
                let _ = (ct, named);
                // named-ness depends on the version the document is built in: decided when the case is made
                out.push(Partial { tidx: i, ops: vec![Op::Create(Site::Main, n), Op::Fill(Site::Main, Tgt::Last, i as u64)], mask, kind: "element" });
            }
        }
        for (a, spec, _) in t.attribute_spec_iter() {
            let Some(s) = t.find_attribute_spec(a) else { continue };
            if s.version & ALL_MASK != ALL_MASK {
                out.push(Partial { tidx: i, ops: vec![Op::SetAttrStr(Site::Main, Tgt::Parent, a, String::new())], mask: s.version, kind: "attribute" });
            }
            if let CharacterDataSpec::Enum { items } = spec {
                for (it, m) in items.iter() {
                    if m & ALL_MASK != ALL_MASK && m & s.version != 0 {
                        out.push(Partial { tidx: i, ops: vec![Op::SetAttr(Site::Main, Tgt::Parent, a, Val::E(*it))], mask: m & s.version, kind: "attribute_enum" });
                    }
                }
            }
        }
        if let Some(CharacterDataSpec::Enum { items }) = t.chardata_spec() {
            for (it, m) in items.iter() {
                if m & ALL_MASK != ALL_MASK {
                    out.push(Partial { tidx: i, ops: vec![Op::SetData(Site::Main, Tgt::Parent, Val::E(*it))], mask: *m, kind: "value_enum" });
                }
            }
        }
    }
    out
}

fn share_first_package(text: &str) -> String {
    let Some(p) = text.find("<AR-PACKAGE>") else { return text.to_string() };
    let Some(a) = text[p..].find("<SHORT-NAME>").map(|i| p + i + "<SHORT-NAME>".len()) else { return text.to_string() };
    let Some(b) = text[a..].find("</SHORT-NAME>").map(|i| a + i) else { return text.to_string() };
    format!("{}shared{}", &text[..a], &text[b..])
}

fn c17_multi(a: &(String, AutosarVersion), b: &(String, AutosarVersion), targets: &[AutosarVersion], st: &mut BTreeMap<String, u64>, rows: &mut Vec<C17Row>, fails: &mut Vec<Fail>, log: &mut Vec<String>) {
    let model = AutosarModel::new();
    let bump = |k: &str, st: &mut BTreeMap<String, u64>| *st.entry(k.to_string()).or_insert(0) += 1;
    log.push(format!("two-file model: a.arxml ({}) then b.arxml ({})\n--- a.arxml\n{}\n--- b.arxml\n{}", vname(a.1), vname(b.1), a.0, b.0));
    let Ok((fa, _)) = model.load_buffer(a.0.as_bytes(), "a.arxml", true) else { return };
    let fb = match model.load_buffer(b.0.as_bytes(), "b.arxml", true) {
        Ok((f, _)) => f,
        Err(e) => {
            bump("c17_multi_merge_refused", st);
            log.push(format!("merge refused: {e}"));
            return;
        }
    };
    bump("c17_multi_models", st);
    for (f, name) in [(&fa, "a.arxml"), (&fb, "b.arxml")] {
        let Ok(ser) = f.serialize() else { continue };
        if strict_load(&ser).is_err() {
            bump("c17_multi_file_not_strict", st);
            continue;
        }
        let single = AutosarModel::new();
        let Ok((fs, _)) = single.load_buffer(ser.as_bytes(), "single.arxml", true) else { continue };
        for &v2 in targets {
            let (e1, m1) = f.check_version_compatibility(v2);
            let (e2, m2) = fs.check_version_compatibility(v2);
            bump("c17_multi_pairs", st);
            if e1.len() != e2.len() || m1 != m2 {
                fails.push(Fail { mismatch: false, key: "c17-multi".into(), detail: format!("{name} -> {}: in the two-file model the check gives {} incompatibilities [{}] mask {m1:#x}; the same file alone gives {} [{}] mask {m2:#x}", vname(v2), e1.len(), compat_text(&e1), e2.len(), compat_text(&e2)) });
                return;
            }
        }
        log.push(format!("file {name}:"));
        c17_file(f, &model.root_element(), &ser, targets, st, rows, fails, log);
        if !fails.is_empty() {
            return;
        }
    }
}

pub fn run(out: &str, seed: u64, thorough: bool, _side: &str) {
    let t0 = std::time::Instant::now();
    let out_dir = out.to_string();
    std::fs::create_dir_all(out).unwrap();
    std::thread::spawn(move || {
        let mut last = 0;
        loop {
            std::thread::sleep(std::time::Duration::from_secs(20));
            let now = PROGRESS.load(Ordering::Relaxed);
            if now == last && now != 0 && now != u64::MAX {
                let cur = CURRENT.lock().map(|c| c.clone()).unwrap_or_default();
                let _ = std::fs::write(format!("{out_dir}/fail_hang.txt"), &cur);
                let _ = std::fs::write(format!("{out_dir}/oracle.json"), "{\"requests\": 1, \"distinct_nontrivial\": 0, \"oracle_failures\": [\"[C12] a call does not return within 20 s replay=fail_hang.txt\"], \"n_oracle_failures\": 1, \"samples\": [], \"stats\": {}}\n");
                std::process::exit(3);
            }
            last = now;
        }
    });
    let prev = std::panic::take_hook();
    std::panic::set_hook(Box::new(|info| {
        if let Ok(mut l) = LAST_PANIC.lock() {
            *l = info.location().map_or(String::new(), |x| format!(" at {}:{}", x.file(), x.line()));
            if std::env::var("EDITS_DEBUG").is_ok() { eprintln!("panic{}", *l); }
        }
    }));
    let mut rng = Rng::new(seed);
    let mut k = Sink::new(out);
    let spec = Spec::new();
    // versions: the oldest, the latest and two seeded ones (quick); all (thorough)
    let versions: Vec<AutosarVersion> = if thorough {
        ALL_VERSIONS.to_vec()
    } else {
        let mut v = vec![ALL_VERSIONS[0], AutosarVersion::LATEST];
        while v.len() < 4 {
            let c = ALL_VERSIONS[1 + rng.below(19)];
            if !v.contains(&c) {
                v.push(c);
            }
        }
        v.sort();
        v
    };
    let mut graphs = HashMap::new();
    for v in ALL_VERSIONS {
        graphs.insert(v as u32, VGraph::new(&spec, v));
    }
    let ctx = Ctx { spec, graphs, valcache: RefCell::new(HashMap::new()) };
    k.stats.insert("element_types".into(), ctx.spec.types.len() as u64);
    k.stats.insert("t_graphs_ms".into(), t0.elapsed().as_millis() as u64);
    let mut rep = Reporter { out: out.to_string(), n_files: 0, n_shrunk: 0, per_sig: HashMap::new() };
    let mut case_id = 0u64;
    let mut docs: Vec<(String, AutosarVersion)> = vec![];
    let n_targets = if thorough { 21 } else { 6 };

    // ---- C07 cases (a share of them also serves as C17 documents)
    let per_version = if thorough { usize::MAX } else { 110 };
    let n_ops = if thorough { 34 } else { 44 };
    for &v in &versions {
        let g = ctx.graph(v);
        let mut parents: Vec<usize> = (0..ctx.spec.types.len()).filter(|i| g.reach[*i] && ctx.spec.types[*i].ety.content_mode() != ContentMode::Characters).collect();
        *k.stats.entry(format!("parent_types_reachable_{}", vname(v))).or_insert(0) = parents.len() as u64;
        if parents.len() > per_version {
            // parents with a sub-element whose named-ness depends on the version (identifiable in other versions only) or that is
            // absent from this version: a seeded handful of them always takes part
            let sensitive: Vec<usize> = parents
                .iter()
                .copied()
                .filter(|i| {
                    ctx.spec.types[*i].ety.sub_element_spec_iter().any(|(_, ct, mask, _)| (mask & (v as u32)) != 0 && ct.is_named() && !ct.is_named_in_version(v))
                })
                .collect();
            *k.stats.entry(format!("parents_with_version_dependent_names_{}", vname(v))).or_insert(0) = sensitive.len() as u64;
            // seeded sample without replacement
            for i in 0..per_version {
                let j = i + rng.below(parents.len() - i);
                parents.swap(i, j);
            }
            parents.truncate(per_version);
            for _ in 0..12.min(sensitive.len()) {
                let c = sensitive[rng.below(sensitive.len())];
                if !parents.contains(&c) {
                    parents.push(c);
                }
            }
        }
        for tidx in parents {
            case_id += 1;
            let mut v_donor = *rng.pick(&versions);
            if v_donor == v {
                v_donor = ALL_VERSIONS[rng.below(21)];
            }
            let alien = if rng.chance(1, 60) { pick_alien(&ctx, g, tidx, &mut rng) } else { None };
            let c17 = if rng.chance(if thorough { 1 } else { 2 }, 5) { targets_for(ALL_MASK, v, n_targets.min(8), &mut rng) } else { vec![] };
            let hdr = Hdr { id: case_id, v, v_donor, tidx, alien, c17, doc_kind: "edited", lax: rng.chance(1, 40) };
            let mut crng = Rng::new(rng.next());
            let co = run_guarded(&ctx, &hdr, Src::Gen(&mut crng, n_ops));
            k.stat(&format!("cases_{}", vname(v)));
            k.stat(&format!("cases_mode_{}", crate::specwalk::mode_str(ctx.spec.types[tidx].ety.content_mode())));
            if hdr.alien.is_some() {
                k.stat("cases_with_alien");
            }
            merge_stats(&mut k, &co.st);
            let req = format!("case {} {} {:?} ops={:016x}", vname(v), ctx.spec.types[tidx].name.to_str(), ctx.spec.types[tidx].ety, ops_hash(&co.ops));
            let ans = format!("ok={} rejected={} fails={}", co.n_ok, co.n_rej, co.fails.len());
            k.put(&req, &ans, co.n_ok > 0);
            for r in &co.rows {
                k.put(&r.req, &r.ans, true);
            }
            if co.strict_ok && co.fails.is_empty() && docs.len() < 4000 {
                if let Some(t) = &co.final_text {
                    docs.push((t.clone(), v));
                }
            }
            if !co.fails.is_empty() {
                rep.report(&ctx, &mut k, &hdr, co);
            }
        }
    }
    k.stats.insert("t_c07_ms".into(), t0.elapsed().as_millis() as u64);

    // ---- C17: purpose-built documents around items that exist in some but not all versions
    let all_partials = partial_items(&ctx);
    let mut partials: Vec<&Partial> = all_partials.iter().collect();
    for kind in ["element", "attribute", "attribute_enum", "value_enum"] {
        k.stats.insert(format!("partial_items_{kind}"), partials.iter().filter(|p| p.kind == kind).count() as u64);
    }
    if !thorough {
        let want = 420;
        for i in 0..want.min(partials.len()) {
            let j = i + rng.below(partials.len() - i);
            partials.swap(i, j);
        }
        partials.truncate(want);
    }
    for pt in partials {
        // a version in which the item exists and the parent can be reached
        let cands: Vec<AutosarVersion> = ALL_VERSIONS.iter().copied().filter(|v| pt.mask & (*v as u32) != 0 && ctx.graph(*v).reach[pt.tidx]).collect();
        if cands.is_empty() {
            k.stat("partial_unreachable");
            continue;
        }
        let v1 = *rng.pick(&cands);
        let t = ctx.spec.types[pt.tidx].ety;
        let mut ops = pt.ops.clone();
        // concrete calls for this version
        match &mut ops[0] {
            Op::Create(_, n) => {
                let n = *n;
                if t.find_sub_element(n, v1 as u32).is_some_and(|(ct, _)| ct.is_named_in_version(v1)) {
                    ops[0] = Op::CreateNamed(Site::Main, n, "item".to_string());
                }
            }
            Op::SetAttrStr(_, _, a, s) => {
                let Some(sp) = t.find_attribute_spec(*a) else { continue };
                match ctx.inside(sp.spec, v1, &mut rng) {
                    Some(val) => *s = val.cd().to_string(),
                    None => {
                        k.stat("partial_no_value");
                        continue;
                    }
                }
            }
            _ => {}
        }
        case_id += 1;
        let hdr = Hdr { id: case_id, v: v1, v_donor: v1, tidx: pt.tidx, alien: None, c17: targets_for(pt.mask, v1, n_targets, &mut rng), doc_kind: pt.kind, lax: false };
        let co = run_guarded(&ctx, &hdr, Src::Replay(&ops));
        merge_stats(&mut k, &co.st);
        k.stat(&format!("partial_cases_{}", pt.kind));
        if co.log.iter().skip(2).take(1).any(|l| !l.ends_with("-> ok")) {
            k.stat(&format!("partial_item_not_placed_{}", pt.kind));
        }
        let req = format!("doc {} {} {} {:?} ops={:016x}", pt.kind, vname(v1), ctx.spec.types[pt.tidx].name.to_str(), t, ops_hash(&ops));
        k.put(&req, &format!("ok={} rejected={} strict={} fails={}", co.n_ok, co.n_rej, co.strict_ok, co.fails.len()), co.n_ok > 0);
        for r in &co.rows {
            k.put(&r.req, &r.ans, true);
        }
        if co.strict_ok && co.fails.is_empty() && docs.len() < 8000 {
            if let Some(t) = &co.final_text {
                docs.push((t.clone(), v1));
            }
        }
        if !co.fails.is_empty() {
            rep.report(&ctx, &mut k, &hdr, co);
        }
    }
    k.stats.insert("t_c17_docs_ms".into(), t0.elapsed().as_millis() as u64);

    // ---- C07: directed copies across versions of items that exist in the source version only
    let mut xs: Vec<&Partial> = all_partials.iter().filter(|p| p.kind != "element" && p.tidx != 0).collect();
    if !thorough {
        let want = 160;
        for i in 0..want.min(xs.len()) {
            let j = i + rng.below(xs.len() - i);
            xs.swap(i, j);
        }
        xs.truncate(want);
    }
    for pt in xs {
        let mains: Vec<AutosarVersion> = ALL_VERSIONS.iter().copied().filter(|v| pt.mask & (*v as u32) == 0 && ctx.graph(*v).reach[pt.tidx]).collect();
        if mains.is_empty() {
            k.stat("xcopy_no_target_version");
            continue;
        }
        let v = *rng.pick(&mains);
        let Some((pidx, name)) = ctx.graph(v).parent[pt.tidx] else { continue };
        let pty = ctx.spec.types[pidx].ety;
        let donors: Vec<AutosarVersion> = ALL_VERSIONS.iter().copied().filter(|vd| pt.mask & (*vd as u32) != 0 && ctx.graph(*vd).reach[pidx] && pty.find_sub_element(name, *vd as u32).is_some()).collect();
        if donors.is_empty() {
            k.stat("xcopy_no_source_version");
            continue;
        }
        let vd = *rng.pick(&donors);
        let (ct, _) = pty.find_sub_element(name, vd as u32).unwrap();
        let first = if ct.is_named_in_version(vd) { Op::CreateNamed(Site::Donor, name, "item".to_string()) } else { Op::Create(Site::Donor, name) };
        let item = match &pt.ops[0] {
            Op::SetAttrStr(_, _, a, _) => match ct.find_attribute_spec(*a).and_then(|sp| ctx.inside(sp.spec, vd, &mut rng)) {
                Some(val) => Op::SetAttr(Site::Donor, Tgt::Last, *a, val),
                None => continue,
            },
            Op::SetAttr(_, _, a, val) => Op::SetAttr(Site::Donor, Tgt::Last, *a, val.clone()),
            Op::SetData(_, _, val) => Op::SetData(Site::Donor, Tgt::Last, val.clone()),
            _ => continue,
        };
        let ops = vec![first, item, Op::Copy(Site::Donor, Tgt::Last, None), Op::CheckRange];
        case_id += 1;
        let hdr = Hdr { id: case_id, v, v_donor: vd, tidx: pidx, alien: None, c17: vec![], doc_kind: "xcopy", lax: false };
        let co = run_guarded(&ctx, &hdr, Src::Replay(&ops));
        merge_stats(&mut k, &co.st);
        k.stat(&format!("xcopy_cases_{}", pt.kind));
        let placed = co.log.iter().filter(|l| l.starts_with("donor.")).all(|l| l.ends_with("-> ok"));
        k.stat(if placed { "xcopy_item_placed_in_source" } else { "xcopy_item_not_placed" });
        let req = format!("xcopy {} {} <- {} {} {:?} ops={:016x}", pt.kind, vname(v), vname(vd), ctx.spec.types[pidx].name.to_str(), pty, ops_hash(&ops));
        k.put(&req, &format!("ok={} rejected={} fails={}", co.n_ok, co.n_rej, co.fails.len()), co.n_ok > 0);
        if !co.fails.is_empty() {
            rep.report(&ctx, &mut k, &hdr, co);
        }
    }
    k.stats.insert("t_xcopy_ms".into(), t0.elapsed().as_millis() as u64);

    // ---- C17: two-file models
    let n_multi = if thorough { 1500 } else { 80 };
    for _ in 0..n_multi.min(docs.len() / 2) {
        let mut a = docs[rng.below(docs.len())].clone();
        let mut b = docs[rng.below(docs.len())].clone();
        if a.0 == b.0 {
            continue;
        }
        if rng.chance(2, 3) {
            // same name for the first package of both files: AR-PACKAGE and its ELEMENTS become shared containers
            a.0 = share_first_package(&a.0);
            b.0 = share_first_package(&b.0);
            k.stat("c17_multi_shared_package");
        }
        let mut targets = targets_for(ALL_MASK, a.1, if thorough { 8 } else { 4 }, &mut rng);
        if !targets.contains(&b.1) {
            targets.push(b.1);
        }
        let mut st = BTreeMap::new();
        let (mut rows, mut fails, mut log) = (vec![], vec![], vec![]);
        PROGRESS.fetch_add(1, Ordering::Relaxed);
        let r = std::panic::catch_unwind(AssertUnwindSafe(|| c17_multi(&a, &b, &targets, &mut st, &mut rows, &mut fails, &mut log)));
        if let Err(p) = r {
            let msg = p.downcast_ref::<String>().cloned().or_else(|| p.downcast_ref::<&str>().map(|s| s.to_string())).unwrap_or_default();
            let loc = LAST_PANIC.lock().map(|l| l.clone()).unwrap_or_default();
            fails.insert(0, Fail { mismatch: false, key: "panic".into(), detail: format!("panic in the two-file check: {msg}{loc}") });
        }
        merge_stats(&mut k, &st);
        k.put(&format!("multi {:08x} {} + {:08x} {}", hash_str(&a.0) & 0xffff_ffff, vname(a.1), hash_str(&b.0) & 0xffff_ffff, vname(b.1)), &format!("rows={} fails={}", rows.len(), fails.len()), true);
        for r in &rows {
            k.put(&r.req, &r.ans, true);
        }
        if let Some(f) = fails.first() {
            let mut file = String::from("-");
            if rep.n_files < 60 {
                rep.n_files += 1;
                file = format!("fail_{}.txt", rep.n_files);
                let _ = std::fs::write(format!("{out}/{file}"), format!("# scenario edits, property C17 (two-file model): {}\n# {}\n{}\n", f.key, f.detail, log.join("\n")));
            }
            if f.key == "panic" {
                k.fail(format!("[C12] {} replay={file}", f.detail));
            }
            k.fail(format!("[C17] {}: {} replay={file}", f.key, f.detail));
        }
    }
    PROGRESS.store(u64::MAX, Ordering::Relaxed);
    std::panic::set_hook(prev);
    k.stats.insert("t_total_ms".into(), t0.elapsed().as_millis() as u64);
    k.stats.insert("documents_collected".into(), docs.len() as u64);
    k.finish(out, "");
}
