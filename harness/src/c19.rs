//! C19 scenario: every pattern validator against conformance tests derived from its published regex.
//! `validate k hex` is answered by the model with the regex semantics (matchD, proved = Matches), by this
//! harness with the real `check_fn`; `dfa k hex` is answered by the model with the regenerated table.
use crate::rx;
use crate::specwalk::*;
use crate::util::*;
use autosar_data_specification::*;
use std::collections::{BTreeSet, HashMap};

pub struct Validators {
    pub by_k: HashMap<usize, (fn(&[u8]) -> bool, &'static str)>,
}

pub fn collect(side: &Side) -> Validators {
    let mut by_k = HashMap::new();
    for ti in all_types() {
        let mut specs: Vec<&'static CharacterDataSpec> = vec![];
        if let Some(c) = ti.ety.chardata_spec() {
            specs.push(c);
        }
        for (_, c, _) in ti.ety.attribute_spec_iter() {
            specs.push(c);
        }
        for c in specs {
            if let CharacterDataSpec::Pattern { check_fn, regex, .. } = c {
                if let Some(k) = side.regex_to_k.get(*regex) {
                    by_k.insert(*k, (*check_fn, *regex));
                }
            }
        }
    }
    Validators { by_k }
}

fn edits(s: &[u8], rng: &mut Rng, alpha: &[u8], n: usize) -> Vec<Vec<u8>> {
    let mut out = vec![];
    for _ in 0..n {
        let mut e = s.to_vec();
        match rng.below(5) {
            0 if !e.is_empty() => { let p = rng.below(e.len()); e.remove(p); }
            1 => { let p = rng.below(e.len() + 1); e.insert(p, *rng.pick(alpha)); }
            2 if !e.is_empty() => { let p = rng.below(e.len()); e[p] = *rng.pick(alpha); }
            3 if e.len() > 1 => { let p = rng.below(e.len() - 1); e.swap(p, p + 1); }
            _ => { let p = rng.below(e.len() + 1); e.insert(p, rng.next() as u8); }
        }
        out.push(e);
    }
    out
}

pub fn run(out: &str, seed: u64, thorough: bool, side_path: &str) {
    let side = Side::load(side_path);
    let dfa_side = std::fs::read_to_string(side_path.replace("side.json", "side_dfa.txt")).expect("side_dfa.txt");
    let mut table: BTreeSet<usize> = BTreeSet::new();
    let mut known: HashMap<usize, Vec<u8>> = HashMap::new();
    for l in dfa_side.lines() {
        let w: Vec<&str> = l.split(' ').collect();
        match w[0] {
            "table" => { table.insert(w[1].parse().unwrap()); }
            "known" => { known.insert(w[1].parse().unwrap(), unhex(w[2]).unwrap()); }
            _ => {}
        }
    }
    let vals = collect(&side);
    let mut rng = Rng::new(seed);
    let mut k = Sink::new(out);
    let mut ks: Vec<usize> = vals.by_k.keys().copied().collect();
    ks.sort();
    k.stats.insert("validators".into(), ks.len() as u64);
    if ks.len() != side.regex_to_k.len() {
        k.fail(format!("only {} of the {} published validators are reachable through the specification", ks.len(), side.regex_to_k.len()));
    }
    for kk in ks {
        let (f, rxs) = vals.by_k[&kk];
        let re = match rx::parse(rxs) {
            Some(r) => r,
            None => { k.fail(format!("test generator cannot parse regex {kk}: {rxs}")); continue; }
        };
        let aut = rx::automaton(&re, if thorough { 1500 } else { 700 });
        let n = aut.states.len();
        k.stats.insert(format!("states_{kk}"), n as u64);
        let mut tests: BTreeSet<Vec<u8>> = BTreeSet::new();
        // characterising suffixes: a shortest accepted continuation of every state (deduplicated) + the empty one
        let mut w: Vec<Vec<u8>> = aut.accept_suffix.iter().flatten().cloned().collect();
        w.sort();
        w.dedup();
        w.sort_by_key(|x| x.len());
        let wmax = if thorough { 400 } else { 24 };
        // transition cover x suffixes
        let bytes: Vec<u8> = if thorough { (0..=255u8).collect() } else { aut.alpha.clone() };
        for q in 0..n {
            for a in &bytes {
                let mut base = aut.access[q].clone();
                base.push(*a);
                tests.insert(base.clone());
                // suffix of the expected successor, of the sibling transitions, and a sample of the global set
                let mut sufs: Vec<&Vec<u8>> = vec![];
                for (ai, _) in aut.alpha.iter().enumerate() {
                    let t = aut.trans[q][ai];
                    if t < n {
                        if let Some(s) = &aut.accept_suffix[t] { sufs.push(s); }
                    }
                }
                if let Some(s) = &aut.accept_suffix[q] { sufs.push(s); }
                let take = if w.len() <= wmax { w.len() } else { wmax };
                for i in 0..take {
                    let idx = if w.len() <= wmax { i } else if i < wmax / 2 { i } else { rng.below(w.len()) };
                    sufs.push(&w[idx]);
                }
                for s in sufs {
                    let mut t = base.clone();
                    t.extend_from_slice(s);
                    tests.insert(t);
                }
            }
        }
        // exhaustive short strings over the reduced alphabet
        let al = &aut.alpha;
        let budget = if thorough { 400_000usize } else { 30_000 };
        let mut len = 0;
        let mut total = 1usize;
        while total.saturating_mul(al.len()) <= budget && len < 6 { total *= al.len(); len += 1; }
        let mut cur: Vec<Vec<u8>> = vec![vec![]];
        tests.insert(vec![]);
        for _ in 0..len {
            let mut next = vec![];
            for s in &cur {
                for a in al {
                    let mut t = s.clone();
                    t.push(*a);
                    next.push(t);
                }
            }
            for t in &next { tests.insert(t.clone()); }
            cur = next;
        }
        k.stats.insert(format!("exhaustive_len_{kk}"), len as u64);
        // members by random walks, and their one-edit neighbours
        let nwalk = if thorough { 4000 } else { 400 };
        for _ in 0..nwalk {
            let mut q = 0usize;
            let mut s = vec![];
            let long = rng.chance(1, 10);
            let steps = rng.below(if long { 200 } else { 24 });
            for _ in 0..steps {
                let opts: Vec<usize> = (0..al.len()).filter(|ai| aut.trans[q][*ai] < n).collect();
                if opts.is_empty() { break; }
                let ai = *rng.pick(&opts);
                s.push(al[ai]);
                q = aut.trans[q][ai];
            }
            if let Some(sf) = &aut.accept_suffix[q] { s.extend_from_slice(sf); }
            for e in edits(&s, &mut rng, al, 6) { tests.insert(e); }
            tests.insert(s);
        }
        for _ in 0..(if thorough { 20000 } else { 2000 }) {
            let l = rng.below(12);
            tests.insert((0..l).map(|_| rng.next() as u8).collect());
        }
        // run
        let is_table = table.contains(&kk);
        let is_known = known.contains_key(&kk);
        let mut acc = 0u64;
        for t in &tests {
            let prev = std::panic::catch_unwind(|| f(t));
            let ans = match prev { Ok(b) => format!("ok {b}"), Err(_) => "panic".to_string() };
            if ans == "ok true" { acc += 1; }
            if !is_known {
                k.put(&format!("validate {kk} {}", hex(t)), &ans, !t.is_empty());
            }
            if is_table {
                k.put(&format!("dfa {kk} {}", hex(t)), &ans, !t.is_empty());
            }
        }
        if let Some(wit) = known.get(&kk) {
            let b = f(wit);
            k.put(&format!("validate {kk} {}", hex(wit)), &format!("ok {b}"), true);
        }
        k.stats.insert(format!("tests_{kk}"), tests.len() as u64);
        k.stats.insert(format!("accepted_{kk}"), acc);
    }
    k.finish(out, "");
}
