//! Scenario `conc` (properties C15, C16 and the lock part of C12): lock discipline of the library under the lock shim
//! (hook H2, `/verif/hooks/h2_lock_shim.patch`, module `autosar_data::verif_lock`).
//!
//!  1. lock programs (shim mode 1): every operation alone on a fresh fixture; the recorded lock events go to
//!     `<out>/lockprograms.txt` (lock ids relative to the fixture, see `<out>/lockroles.txt`). Oracle C12: no
//!     `SelfDeadlock`, no `TryFail`, no `ParentElementLocked` in single-threaded use.
//!  2. pairs (and, in the thorough tier, triples) of operations under the deterministic scheduler (shim mode 2):
//!     all interleavings with a bounded number of preemptions plus random ones. The quick tier takes every
//!     writer x writer pair and a seeded sample of the pairs with a reader over the operations of `MAIN`, plus the
//!     fixed `targeted_pairs` of the operations of `EXTRA` (`rmcdata_ref`, `get_or_create_named`). Oracle C15: no deadlock. Oracle C16:
//!     results and final dump equal those of a serial order of the operations that did not return
//!     `ParentElementLocked`; structural and index invariants hold at the end.
//!  3. real threads (shim mode 0): every deadlocking pair is retried with two real threads in a child process
//!     (`avharness concchild <pair-index>`) for up to 3 s under a watchdog.
//!
//! The shim API only exists after the patch has been applied to the library, therefore everything is behind
//! `--features lockshim` (or `--cfg avh_lockshim`); without it the scenario only reports "shim not applied".
#![allow(unexpected_cfgs)]

#[cfg(not(any(feature = "lockshim", avh_lockshim)))]
pub fn run(out: &str, _seed: u64, _thorough: bool, _side: &str) {
    let mut k = crate::util::Sink::new(out);
    k.stat("shim_not_applied");
    k.put("conc", "shim not applied", false);
    k.finish(out, "\"note\": \"shim not applied: apply /verif/hooks/h2_lock_shim.patch to the library and build the harness with --features lockshim\"");
}

#[cfg(not(any(feature = "lockshim", avh_lockshim)))]
pub fn child() {
    eprintln!("concchild: shim not applied (build with --features lockshim after applying /verif/hooks/h2_lock_shim.patch)");
    std::process::exit(2);
}

#[cfg(any(feature = "lockshim", avh_lockshim))]
pub use imp::{child, run};

#[cfg(any(feature = "lockshim", avh_lockshim))]
mod imp {
    use crate::util::*;
    use autosar_data::verif_lock as vl;
    use autosar_data::verif_lock::{LockEvent, LockEventKind, SchedOutcome};
    use autosar_data::*;
    use std::collections::{BTreeMap, BTreeSet, HashMap, HashSet};
    use std::fmt::Write as _;
    use std::panic::{catch_unwind, AssertUnwindSafe};
    use std::sync::{Arc, Mutex};
    use std::time::{Duration, Instant};

    // --------------------------------------------------------------------------------------------
    // operations
    // --------------------------------------------------------------------------------------------

    #[derive(Clone, Copy, PartialEq, Eq, Hash, Debug, PartialOrd, Ord)]
    enum Op {
        // writers
        CreateNamed,
        RemoveSub,
        SetItemName,
        MoveHere,
        SetCdata,
        SetRefTarget,
        SetComment,
        SetAttribute,
        CreateFile,
        RemoveFile,
        LoadBuffer,
        LoadBuffer2,
        Sort,
        SetRef2Text,
        SetFilename,
        // writers that are paired in a targeted way only (see `EXTRA`); declared after the other writers so that the
        // signatures of the pairs among the operations above stay what they are
        RmCdataRef,
        GetOrCreateNamed,
        // readers
        SerializeA,
        SerializeB,
        Path,
        DfsCount,
        CheckRefs,
        GetByPath,
        GetRefsTo,
        IdentCount,
        // special cases (known findings), not part of the general pairing
        LoadEmpty1,
        LoadEmpty2,
        MoveToAncestor,
    }
    use Op::*;

    /// the operations that are paired with each other; writers first (signatures name the lower index first)
    const MAIN: [Op; 23] = [
        CreateNamed, RemoveSub, SetItemName, MoveHere, SetCdata, SetRefTarget, SetComment, SetAttribute, CreateFile, RemoveFile,
        LoadBuffer, LoadBuffer2, Sort, SetRef2Text, SetFilename, SerializeA, SerializeB, Path, DfsCount, CheckRefs, GetByPath, GetRefsTo, IdentCount,
    ];
    /// further writers: in the quick tier they are only paired with the operations that take the same locks (`targeted_pairs`),
    /// so that the seeded sample over `MAIN` is the same as without them; the thorough tier pairs them with everything
    const EXTRA: [Op; 2] = [RmCdataRef, GetOrCreateNamed];
    /// `MAIN` followed by `EXTRA`: the operations that can be part of a pair; pair index = index(a) * len + index(b) (argument of `concchild`)
    const PAIRED: [Op; 25] = [
        CreateNamed, RemoveSub, SetItemName, MoveHere, SetCdata, SetRefTarget, SetComment, SetAttribute, CreateFile, RemoveFile,
        LoadBuffer, LoadBuffer2, Sort, SetRef2Text, SetFilename, SerializeA, SerializeB, Path, DfsCount, CheckRefs, GetByPath, GetRefsTo, IdentCount,
        RmCdataRef, GetOrCreateNamed,
    ];
    const ALL: [Op; 28] = [
        CreateNamed, RemoveSub, SetItemName, MoveHere, SetCdata, SetRefTarget, SetComment, SetAttribute, CreateFile, RemoveFile,
        LoadBuffer, LoadBuffer2, Sort, SetRef2Text, SetFilename, RmCdataRef, GetOrCreateNamed, SerializeA, SerializeB, Path, DfsCount, CheckRefs, GetByPath,
        GetRefsTo, IdentCount, LoadEmpty1, LoadEmpty2, MoveToAncestor,
    ];

    /// The pairs with the operations of `EXTRA` that every run explores (both tiers):
    ///  * `rmcdata_ref` with `check_references` in both orders (model read lock held while the referring elements are read-locked),
    ///    with the other operations that hold the model lock or work on the same reference / its target (the ones
    ///    `set_reference_target` is paired with), and with itself;
    ///  * `get_or_create_named` with itself (both threads ask the same parent for the same not yet existing element) and with
    ///    `create_named_sub_element` / `remove_sub_element` on the same parent, in both orders.
    fn targeted_pairs() -> Vec<[Op; 2]> {
        let mut v = vec![[RmCdataRef, CheckRefs], [CheckRefs, RmCdataRef]];
        for o in [GetRefsTo, GetByPath, IdentCount, RemoveSub, SetItemName, MoveHere, SetRefTarget, SetRef2Text, CreateNamed, CreateFile, RemoveFile, LoadBuffer, Sort] {
            v.push(if o.is_writer() { [o, RmCdataRef] } else { [RmCdataRef, o] });
        }
        v.push([RmCdataRef, RmCdataRef]);
        v.push([GetOrCreateNamed, GetOrCreateNamed]);
        for o in [CreateNamed, RemoveSub] {
            v.push([GetOrCreateNamed, o]);
            v.push([o, GetOrCreateNamed]);
        }
        v
    }

    impl Op {
        fn name(self) -> &'static str {
            match self {
                CreateNamed => "create_named_sub_element",
                RemoveSub => "remove_sub_element",
                SetItemName => "set_item_name",
                MoveHere => "move_element_here",
                SetCdata => "set_character_data",
                SetRefTarget => "set_reference_target",
                SetComment => "set_comment",
                SetAttribute => "set_attribute",
                CreateFile => "create_file",
                RemoveFile => "remove_file",
                LoadBuffer => "load_buffer",
                LoadBuffer2 => "load_buffer_2",
                Sort => "sort",
                SetRef2Text => "set_character_data_ref2",
                SetFilename => "set_filename",
                RmCdataRef => "rmcdata_ref",
                GetOrCreateNamed => "get_or_create_named",
                SerializeA => "serialize_a",
                SerializeB => "serialize_b",
                Path => "path",
                DfsCount => "elements_dfs",
                CheckRefs => "check_references",
                GetByPath => "get_element_by_path",
                GetRefsTo => "get_references_to",
                IdentCount => "identifiable_elements",
                LoadEmpty1 => "load_empty_1",
                LoadEmpty2 => "load_empty_2",
                MoveToAncestor => "move_to_ancestor",
            }
        }
        /// what the operation does, for replay files
        fn describe(self) -> &'static str {
            match self {
                CreateNamed => "/pkg2/ELEMENTS .create_named_sub_element(EcuInstance, \"newecu\")",
                RemoveSub => "/pkg2/ELEMENTS .remove_sub_element(/pkg2/ecu2)",
                SetItemName => "/pkg2 .set_item_name(\"renamed\")",
                MoveHere => "/pkg1/ELEMENTS .move_element_here(/pkg2/ecu2)",
                SetCdata => "/pkg1/ecu/COM-ENABLE-MDT-FOR-CYCLIC-TRANSMISSION .set_character_data(\"false\")",
                SetRefTarget => "ref1 (first FIBEX-ELEMENT-REF of /pkg1/sys, -> /pkg1/ecu) .set_reference_target(/pkg2/ecu2)",
                SetComment => "/pkg2/ecu2 .set_comment(Some(\"note\"))",
                SetAttribute => "/pkg2 .set_attribute(UUID, \"u-2\")",
                CreateFile => "model.create_file(\"c.arxml\")",
                RemoveFile => "model.remove_file(b.arxml)",
                LoadBuffer => "model.load_buffer(doc with /pkgL/sysL referring to /pkg2/ecu2, \"l.arxml\", strict)",
                LoadBuffer2 => "model.load_buffer(doc with /pkgM/ecuM, \"m.arxml\", strict)",
                Sort => "model.sort()",
                SetRef2Text => "ref2 (second FIBEX-ELEMENT-REF of /pkg1/sys, -> /pkg2/ecu2) .set_character_data(\"/pkg1/ecu\")",
                SetFilename => "a.arxml .set_filename(\"z.arxml\")",
                RmCdataRef => "ref2 (second FIBEX-ELEMENT-REF of /pkg1/sys, -> /pkg2/ecu2, listed in the reverse reference map) .remove_character_data()",
                GetOrCreateNamed => "/pkg2/ELEMENTS .get_or_create_named_sub_element(EcuInstance, \"gocecu\") (does not exist yet)",
                SerializeA => "a.arxml .serialize()",
                SerializeB => "b.arxml .serialize()",
                Path => "/pkg2/ecu2 .path()",
                DfsCount => "model.elements_dfs().count()",
                CheckRefs => "model.check_references()",
                GetByPath => "model.get_element_by_path(\"/pkg2/ecu2\")",
                GetRefsTo => "model.get_references_to(\"/pkg2/ecu2\")",
                IdentCount => "model.identifiable_elements().count()",
                LoadEmpty1 => "empty model2 .load_buffer(doc with /pkgE1, \"e1.arxml\", strict)",
                LoadEmpty2 => "empty model2 .load_buffer(doc with /pkgE2, \"e2.arxml\", strict)",
                MoveToAncestor => "top-level AR-PACKAGES .move_element_here(/pkg1/sub) (destination is an ancestor of the moved element)",
            }
        }
        fn is_writer(self) -> bool {
            (self as usize) < 17 || matches!(self, LoadEmpty1 | LoadEmpty2 | MoveToAncestor)
        }
        fn pair_index(self) -> usize {
            PAIRED.iter().position(|o| *o == self).unwrap_or(usize::MAX)
        }
    }

    /// raw return value of an operation; rendered to text after all threads are done
    enum Ret {
        Unit(Result<(), AutosarDataError>),
        Elem(Result<Element, AutosarDataError>),
        File(Result<ArxmlFile, AutosarDataError>),
        Load(Result<usize, AutosarDataError>),
        Str(Result<String, AutosarDataError>),
        Plain(String),
        Count(usize),
        Elems(Vec<WeakElement>),
        OptElem(Option<Element>),
        Panic(String),
    }

    #[derive(Clone, Debug, PartialEq, Eq)]
    struct Rendered {
        text: String,
        locked: bool,
        panicked: bool,
    }

    // --------------------------------------------------------------------------------------------
    // fixture
    // --------------------------------------------------------------------------------------------

    fn head() -> String {
        format!("<?xml version=\"1.0\" encoding=\"utf-8\"?>\n<AUTOSAR xsi:schemaLocation=\"http://autosar.org/schema/r4.0 {}\" xmlns=\"http://autosar.org/schema/r4.0\" xmlns:xsi=\"http://www.w3.org/2001/XMLSchema-instance\">", AutosarVersion::LATEST.filename())
    }

    fn doc_load() -> String {
        format!("{}<AR-PACKAGES><AR-PACKAGE><SHORT-NAME>pkgL</SHORT-NAME><ELEMENTS><SYSTEM><SHORT-NAME>sysL</SHORT-NAME><FIBEX-ELEMENTS><FIBEX-ELEMENT-REF-CONDITIONAL><FIBEX-ELEMENT-REF DEST=\"ECU-INSTANCE\">/pkg2/ecu2</FIBEX-ELEMENT-REF></FIBEX-ELEMENT-REF-CONDITIONAL></FIBEX-ELEMENTS></SYSTEM></ELEMENTS></AR-PACKAGE></AR-PACKAGES></AUTOSAR>\n", head())
    }

    fn doc_other() -> String {
        format!("{}<AR-PACKAGES><AR-PACKAGE><SHORT-NAME>pkgM</SHORT-NAME><ELEMENTS><ECU-INSTANCE><SHORT-NAME>ecuM</SHORT-NAME></ECU-INSTANCE></ELEMENTS></AR-PACKAGE></AR-PACKAGES></AUTOSAR>\n", head())
    }

    fn doc_empty(n: u32) -> String {
        format!("{}<AR-PACKAGES><AR-PACKAGE><SHORT-NAME>pkgE{n}</SHORT-NAME><ELEMENTS><ECU-INSTANCE><SHORT-NAME>ecuE{n}</SHORT-NAME></ECU-INSTANCE></ELEMENTS></AR-PACKAGE></AR-PACKAGES></AUTOSAR>\n", head())
    }

    /// A model with two files (`/pkg1` in a.arxml, `/pkg2` in b.arxml), two references and a nested package, plus an
    /// empty second model. Built in exactly the same order every time, so that lock ids relative to `base` always
    /// denote the same object.
    struct Fx {
        base: u64,
        size: u64,
        model: AutosarModel,
        model2: AutosarModel,
        fb: ArxmlFile,
        fa: ArxmlFile,
        pkgs: Element,
        pkg2: Element,
        el1: Element,
        el2: Element,
        ecu2: Element,
        sub: Element,
        cdata: Element,
        ref1: Element,
        ref2: Element,
        roles: BTreeMap<u64, String>,
    }

    impl Fx {
        fn build() -> Fx {
            let base = vl::verif_lock_counter();
            let ver = AutosarVersion::LATEST;
            let model = AutosarModel::new();
            let fa = model.create_file("a.arxml", ver).unwrap();
            let fb = model.create_file("b.arxml", ver).unwrap();
            let root = model.root_element();
            let pkgs = root.create_sub_element(ElementName::ArPackages).unwrap();
            let pkg1 = pkgs.create_named_sub_element(ElementName::ArPackage, "pkg1").unwrap();
            let pkg2 = pkgs.create_named_sub_element(ElementName::ArPackage, "pkg2").unwrap();
            pkg1.set_attribute(AttributeName::Uuid, CharacterData::String("u-1".into())).unwrap();
            let el1 = pkg1.create_sub_element(ElementName::Elements).unwrap();
            let sys = el1.create_named_sub_element(ElementName::System, "sys").unwrap();
            let ecu = el1.create_named_sub_element(ElementName::EcuInstance, "ecu").unwrap();
            let cdata = ecu.create_sub_element(ElementName::ComEnableMdtForCyclicTransmission).unwrap();
            cdata.set_character_data("true").unwrap();
            let subpkgs = pkg1.create_sub_element(ElementName::ArPackages).unwrap();
            let sub = subpkgs.create_named_sub_element(ElementName::ArPackage, "sub").unwrap();
            let el3 = sub.create_sub_element(ElementName::Elements).unwrap();
            let _ecu3 = el3.create_named_sub_element(ElementName::EcuInstance, "ecu3").unwrap();
            let el2 = pkg2.create_sub_element(ElementName::Elements).unwrap();
            let ecu2 = el2.create_named_sub_element(ElementName::EcuInstance, "ecu2").unwrap();
            let _ecu4 = el2.create_named_sub_element(ElementName::EcuInstance, "ecu4").unwrap();
            let fibex = sys.create_sub_element(ElementName::FibexElements).unwrap();
            let ref1 = fibex
                .create_sub_element(ElementName::FibexElementRefConditional)
                .and_then(|c| c.create_sub_element(ElementName::FibexElementRef))
                .unwrap();
            ref1.set_reference_target(&ecu).unwrap();
            let ref2 = fibex
                .create_sub_element(ElementName::FibexElementRefConditional)
                .and_then(|c| c.create_sub_element(ElementName::FibexElementRef))
                .unwrap();
            ref2.set_reference_target(&ecu2).unwrap();
            pkg1.remove_from_file(&fb).unwrap();
            pkg2.remove_from_file(&fa).unwrap();
            let model2 = AutosarModel::new();
            let size = vl::verif_lock_counter() - base;
            let mut roles = BTreeMap::new();
            roles.insert(model.verif_lock_id() - base, "model".to_string());
            roles.insert(model2.verif_lock_id() - base, "model2".to_string());
            roles.insert(model2.root_element().verif_lock_id() - base, "element:model2:/AUTOSAR".to_string());
            roles.insert(fa.verif_lock_id() - base, "file:a.arxml".to_string());
            roles.insert(fb.verif_lock_id() - base, "file:b.arxml".to_string());
            for (_, e) in model.elements_dfs() {
                let role = match e.path() {
                    Ok(p) if e.is_identifiable() => format!("element:{p}"),
                    _ => format!("element:{}", e.xml_path()),
                };
                roles.insert(e.verif_lock_id() - base, role.replace(' ', "_"));
            }
            // several elements can have the same xml path (e.g. the two reference containers): number them
            let mut seen: HashMap<String, u32> = HashMap::new();
            for role in roles.values_mut() {
                let n = seen.entry(role.clone()).or_insert(0);
                *n += 1;
                if *n > 1 {
                    let _ = write!(role, "[{}]", *n);
                }
            }
            Fx { base, size, model, model2, fa, fb, pkgs, pkg2, el1, el2, ecu2, sub, cdata, ref1, ref2, roles }
        }

        /// lock id as written to files: relative to the fixture, `new<k>` for locks created after the fixture
        fn lid(&self, id: u64) -> String {
            if id < self.base {
                format!("pre{}", self.base - id)
            } else if id - self.base < self.size {
                format!("{}", id - self.base)
            } else {
                format!("new{}", id - self.base - self.size)
            }
        }

        fn lid_role(&self, id: u64) -> String {
            let l = self.lid(id);
            match id.checked_sub(self.base).and_then(|r| self.roles.get(&r)) {
                Some(r) => format!("#{l}({r})"),
                None => format!("#{l}"),
            }
        }

        /// stable identity of an element: fixture lock id, or just the element name for elements created later
        fn ident(&self, e: &Element) -> String {
            let id = e.verif_lock_id();
            if id >= self.base && id - self.base < self.size {
                format!("#{}", id - self.base)
            } else {
                format!("new:{}", e.element_name())
            }
        }

        fn make(&self, op: Op) -> Box<dyn FnOnce() -> Ret + Send> {
            match op {
                CreateNamed => {
                    let e = self.el2.clone();
                    Box::new(move || Ret::Elem(e.create_named_sub_element(ElementName::EcuInstance, "newecu")))
                }
                RemoveSub => {
                    let (e, x) = (self.el2.clone(), self.ecu2.clone());
                    Box::new(move || Ret::Unit(e.remove_sub_element(x)))
                }
                SetItemName => {
                    let e = self.pkg2.clone();
                    Box::new(move || Ret::Unit(e.set_item_name("renamed")))
                }
                MoveHere => {
                    let (e, x) = (self.el1.clone(), self.ecu2.clone());
                    Box::new(move || Ret::Elem(e.move_element_here(&x)))
                }
                SetCdata => {
                    let e = self.cdata.clone();
                    Box::new(move || Ret::Unit(e.set_character_data("false")))
                }
                SetRefTarget => {
                    let (e, x) = (self.ref1.clone(), self.ecu2.clone());
                    Box::new(move || Ret::Unit(e.set_reference_target(&x)))
                }
                SetComment => {
                    let e = self.ecu2.clone();
                    Box::new(move || {
                        e.set_comment(Some("note".to_string()));
                        Ret::Plain("()".into())
                    })
                }
                SetAttribute => {
                    let e = self.pkg2.clone();
                    Box::new(move || Ret::Unit(e.set_attribute(AttributeName::Uuid, CharacterData::String("u-2".into()))))
                }
                CreateFile => {
                    let m = self.model.clone();
                    Box::new(move || Ret::File(m.create_file("c.arxml", AutosarVersion::LATEST)))
                }
                RemoveFile => {
                    let (m, f) = (self.model.clone(), self.fb.clone());
                    Box::new(move || {
                        m.remove_file(&f);
                        Ret::Plain("()".into())
                    })
                }
                LoadBuffer => {
                    let m = self.model.clone();
                    Box::new(move || Ret::Load(m.load_buffer(doc_load().as_bytes(), "l.arxml", true).map(|(_, w)| w.len())))
                }
                LoadBuffer2 => {
                    let m = self.model.clone();
                    Box::new(move || Ret::Load(m.load_buffer(doc_other().as_bytes(), "m.arxml", true).map(|(_, w)| w.len())))
                }
                Sort => {
                    let m = self.model.clone();
                    Box::new(move || {
                        m.sort();
                        Ret::Plain("()".into())
                    })
                }
                SetRef2Text => {
                    let e = self.ref2.clone();
                    Box::new(move || Ret::Unit(e.set_character_data("/pkg1/ecu")))
                }
                SetFilename => {
                    let f = self.fa.clone();
                    Box::new(move || Ret::Unit(f.set_filename("z.arxml")))
                }
                RmCdataRef => {
                    let e = self.ref2.clone();
                    Box::new(move || Ret::Unit(e.remove_character_data()))
                }
                GetOrCreateNamed => {
                    let e = self.el2.clone();
                    Box::new(move || Ret::Elem(e.get_or_create_named_sub_element(ElementName::EcuInstance, "gocecu")))
                }
                SerializeA => {
                    let f = self.fa.clone();
                    Box::new(move || Ret::Str(f.serialize()))
                }
                SerializeB => {
                    let f = self.fb.clone();
                    Box::new(move || Ret::Str(f.serialize()))
                }
                Path => {
                    let e = self.ecu2.clone();
                    Box::new(move || Ret::Str(e.path()))
                }
                DfsCount => {
                    let m = self.model.clone();
                    Box::new(move || Ret::Count(m.elements_dfs().count()))
                }
                CheckRefs => {
                    let m = self.model.clone();
                    Box::new(move || Ret::Elems(m.check_references()))
                }
                GetByPath => {
                    let m = self.model.clone();
                    Box::new(move || Ret::OptElem(m.get_element_by_path("/pkg2/ecu2")))
                }
                GetRefsTo => {
                    let m = self.model.clone();
                    Box::new(move || Ret::Elems(m.get_references_to("/pkg2/ecu2")))
                }
                IdentCount => {
                    let m = self.model.clone();
                    Box::new(move || Ret::Count(m.identifiable_elements().count()))
                }
                LoadEmpty1 | LoadEmpty2 => {
                    let m = self.model2.clone();
                    let n = if op == LoadEmpty1 { 1 } else { 2 };
                    Box::new(move || {
                        Ret::Load(m.load_buffer(doc_empty(n).as_bytes(), format!("e{n}.arxml"), true).map(|(_, w)| w.len()))
                    })
                }
                MoveToAncestor => {
                    let (e, x) = (self.pkgs.clone(), self.sub.clone());
                    Box::new(move || Ret::Elem(e.move_element_here(&x)))
                }
            }
        }

        fn render(&self, r: Ret) -> Rendered {
            fn err(e: &AutosarDataError) -> Rendered {
                Rendered { text: format!("Err({e:?})"), locked: matches!(e, AutosarDataError::ParentElementLocked), panicked: false }
            }
            fn ok(text: String) -> Rendered {
                Rendered { text, locked: false, panicked: false }
            }
            match r {
                Ret::Unit(Ok(())) => ok("Ok(())".into()),
                Ret::Elem(Ok(e)) => ok(format!("Ok(element {})", self.ident(&e))),
                Ret::File(Ok(f)) => ok(format!("Ok(file {})", f.filename().display())),
                Ret::Load(Ok(n)) => ok(format!("Ok(loaded, {n} warnings)")),
                Ret::Str(Ok(s)) => {
                    if s.len() < 60 {
                        ok(format!("Ok({s:?})"))
                    } else {
                        let h = digest(&s.bytes().map(|b| b as u64).collect::<Vec<_>>());
                        ok(format!("Ok(text len={} digest={h:x})", s.len()))
                    }
                }
                Ret::Unit(Err(e)) | Ret::Elem(Err(e)) | Ret::File(Err(e)) | Ret::Load(Err(e)) | Ret::Str(Err(e)) => err(&e),
                Ret::Plain(s) => ok(s),
                Ret::Count(n) => ok(format!("{n}")),
                Ret::Elems(v) => {
                    let mut l: Vec<String> =
                        v.iter().map(|w| w.upgrade().map(|e| self.ident(&e)).unwrap_or_else(|| "dead".into())).collect();
                    l.sort();
                    ok(format!("[{}]", l.join(",")))
                }
                Ret::OptElem(o) => ok(match o {
                    Some(e) => format!("Some({})", self.ident(&e)),
                    None => "None".into(),
                }),
                Ret::Panic(m) => Rendered { text: format!("panic({m})"), locked: false, panicked: true },
            }
        }

        /// canonical dump of both models: files, tree, file membership, path index, reverse reference map
        fn dump(&self) -> String {
            let mut s = String::new();
            for (name, m) in [("model", &self.model), ("model2", &self.model2)] {
                let mut files: Vec<String> = m.files().map(|f| f.filename().display().to_string()).collect();
                files.sort();
                let _ = writeln!(s, "== {name}: files {files:?}");
                let _ = writeln!(s, "{}", m.root_element().serialize());
                for (_, e) in m.elements_dfs() {
                    if let Ok((local, set)) = e.file_membership() {
                        if local {
                            let mut l: Vec<String> = set
                                .iter()
                                .map(|w| w.upgrade().map(|f| f.filename().display().to_string()).unwrap_or_else(|| "dead".into()))
                                .collect();
                            l.sort();
                            let _ = writeln!(s, "membership {} {l:?}", e.xml_path());
                        }
                    } else {
                        let _ = writeln!(s, "membership {} error", e.xml_path());
                    }
                }
                let mut idents: Vec<String> = m
                    .verif_identifiables()
                    .into_iter()
                    .map(|(p, w)| format!("ident {p} -> {}", w.upgrade().map(|e| self.ident(&e)).unwrap_or_else(|| "dead".into())))
                    .collect();
                idents.sort();
                for l in idents {
                    let _ = writeln!(s, "{l}");
                }
                let mut it: Vec<String> = m.identifiable_elements().map(|(p, _)| p).collect();
                it.sort();
                let _ = writeln!(s, "identifiable_elements {it:?}");
                let mut refs: Vec<String> = m
                    .verif_reference_origins()
                    .into_iter()
                    .map(|(p, v)| {
                        let mut l: Vec<String> =
                            v.iter().map(|w| w.upgrade().map(|e| self.ident(&e)).unwrap_or_else(|| "dead".into())).collect();
                        l.sort();
                        format!("refs {p} <- [{}]", l.join(","))
                    })
                    .collect();
                refs.sort();
                for l in refs {
                    let _ = writeln!(s, "{l}");
                }
            }
            s
        }

        /// structural and index invariants; returns the violations
        fn invariants(&self) -> Vec<String> {
            let mut v = vec![];
            for (name, m) in [("model", &self.model), ("model2", &self.model2)] {
                let mut in_tree: HashSet<u64> = HashSet::new();
                let all: Vec<Element> = m.elements_dfs().map(|(_, e)| e).collect();
                for e in &all {
                    in_tree.insert(e.verif_lock_id());
                }
                let refmap: HashMap<String, Vec<WeakElement>> = m.verif_reference_origins().into_iter().collect();
                for e in &all {
                    for sub in e.sub_elements() {
                        if sub.parent().ok().flatten().as_ref() != Some(e) {
                            v.push(format!("{name}: parent of {} is not the element that contains it", sub.xml_path()));
                        }
                    }
                    if e.is_identifiable() {
                        match e.path() {
                            Ok(p) => {
                                if m.get_element_by_path(&p).as_ref() != Some(e) {
                                    v.push(format!("{name}: path {p} does not resolve to the element that reports it"));
                                }
                            }
                            Err(err) => v.push(format!("{name}: path() of {} fails: {err:?}", e.xml_path())),
                        }
                    }
                    if e.is_reference() {
                        if let Some(CharacterData::String(t)) = e.character_data() {
                            let listed = refmap.get(&t).is_some_and(|l| l.iter().any(|w| w.upgrade().as_ref() == Some(e)));
                            if !listed {
                                v.push(format!("{name}: reference {} -> {t} is missing in the reverse reference map", e.xml_path()));
                            }
                        }
                    }
                }
                for (p, w) in m.verif_identifiables() {
                    match w.upgrade() {
                        None => v.push(format!("{name}: path index entry {p} is dead")),
                        Some(e) => {
                            if !in_tree.contains(&e.verif_lock_id()) {
                                v.push(format!("{name}: path index entry {p} is not part of the tree"));
                            } else if e.path().ok().as_deref() != Some(p.as_str()) {
                                v.push(format!("{name}: path index entry {p} names an element whose path is {:?}", e.path().ok()));
                            }
                        }
                    }
                }
                for (p, l) in &refmap {
                    for w in l {
                        match w.upgrade() {
                            None => v.push(format!("{name}: reverse reference map entry for {p} is dead")),
                            Some(e) => {
                                if !in_tree.contains(&e.verif_lock_id()) {
                                    v.push(format!("{name}: reverse reference map entry for {p} is not part of the tree"));
                                } else if e.character_data() != Some(CharacterData::String(p.clone())) {
                                    v.push(format!("{name}: reverse reference map lists {} under {p} but it refers to {:?}", e.xml_path(), e.character_data()));
                                }
                            }
                        }
                    }
                }
            }
            v.sort();
            v.dedup();
            v
        }
    }

    fn panic_text(p: Box<dyn std::any::Any + Send>) -> String {
        if let Some(s) = p.downcast_ref::<String>() {
            s.clone()
        } else if let Some(s) = p.downcast_ref::<&str>() {
            (*s).to_string()
        } else {
            "?".into()
        }
    }

    fn short_file(f: &str) -> &str {
        f.rsplit('/').next().unwrap_or(f)
    }

    fn site(file: &str, line: u32) -> String {
        format!("{}:{}", short_file(file), line)
    }

    // --------------------------------------------------------------------------------------------
    // serial reference executions
    // --------------------------------------------------------------------------------------------

    #[derive(Clone)]
    struct Serial {
        rets: Vec<Rendered>,
        dump: String,
        inv: Vec<String>,
    }

    fn run_serial(seq: &[Op]) -> Serial {
        let fx = Fx::build();
        let mut rets = vec![];
        for op in seq {
            let f = fx.make(*op);
            let r = match catch_unwind(AssertUnwindSafe(f)) {
                Ok(r) => r,
                Err(p) => Ret::Panic(panic_text(p)),
            };
            rets.push(fx.render(r));
        }
        Serial { rets, dump: fx.dump(), inv: fx.invariants() }
    }

    // --------------------------------------------------------------------------------------------
    // one run under the scheduler
    // --------------------------------------------------------------------------------------------

    struct Run {
        out: SchedOutcome,
        rets: Vec<Rendered>,
        dump: String,
        inv: Vec<String>,
        /// rendered trace lines
        trace: Vec<String>,
        /// the scheduling decisions (thread, enabled threads)
        decisions: Vec<(usize, Vec<usize>)>,
    }

    fn run_sched(ops: &[Op], schedule: Vec<usize>) -> Run {
        let fx = Fx::build();
        let slots: Vec<Arc<Mutex<Option<Ret>>>> = ops.iter().map(|_| Arc::new(Mutex::new(None))).collect();
        let mut bodies: Vec<Box<dyn FnOnce() + Send>> = vec![];
        for (i, op) in ops.iter().enumerate() {
            let f = fx.make(*op);
            let slot = slots[i].clone();
            bodies.push(Box::new(move || {
                let r = match catch_unwind(AssertUnwindSafe(f)) {
                    Ok(r) => r,
                    Err(p) => Ret::Panic(panic_text(p)),
                };
                *slot.lock().unwrap() = Some(r);
            }));
        }
        let out = vl::verif_sched_run_opts(schedule, bodies, true);
        let mut trace = vec![];
        let mut decisions = vec![];
        for (i, (t, ev)) in out.trace.iter().enumerate() {
            let en = &out.enabled[i];
            if !en.is_empty() {
                decisions.push((*t, en.clone()));
            }
            let lock = if ev.kind == LockEventKind::Start { "-".to_string() } else { fx.lid_role(ev.lock) };
            trace.push(format!("T{t} {} {lock} {} enabled={en:?}", ev.kind.name(), site(ev.file, ev.line)));
        }
        if out.stuck {
            return Run { out, rets: vec![], dump: "<stuck>".into(), inv: vec![], trace, decisions };
        }
        let rets: Vec<Rendered> = slots
            .iter()
            .map(|s| match s.lock().unwrap().take() {
                Some(r) => fx.render(r),
                None => Rendered { text: "<no result>".into(), locked: false, panicked: true },
            })
            .collect();
        let dump = fx.dump();
        let inv = fx.invariants();
        Run { out, rets, dump, inv, trace, decisions }
    }

    fn preemptions(dec: &[(usize, Vec<usize>)]) -> usize {
        (1..dec.len()).filter(|j| dec[*j].0 != dec[*j - 1].0 && dec[*j].1.contains(&dec[*j - 1].0)).count()
    }

    // --------------------------------------------------------------------------------------------
    // findings
    // --------------------------------------------------------------------------------------------

    struct Finding {
        prop: &'static str,
        sig: String,
        /// kind of defect under this signature: deadlock, results, state, invariant, panic, ...
        class: String,
        /// the different forms in which it was seen (e.g. the different lock cycles) with their frequency
        variants: BTreeMap<String, u64>,
        msg: String,
        replay: String,
        count: u64,
        pair_index: Option<usize>,
    }

    struct Ctx {
        out: String,
        k: Sink,
        findings: Vec<Finding>,
        nfail: usize,
        serial: HashMap<Vec<Op>, Serial>,
        runs: u64,
        /// lock cycles without operation names -> the operation combinations that run into them
        cycles: BTreeMap<String, BTreeSet<String>>,
    }

    impl Ctx {
        fn serial(&mut self, seq: &[Op]) -> Serial {
            if let Some(s) = self.serial.get(seq) {
                return s.clone();
            }
            let s = run_serial(seq);
            self.k.stat("serial_runs");
            self.serial.insert(seq.to_vec(), s.clone());
            s
        }

        /// a combination of three operations of which two already show a defect of the same property as a pair
        fn subsumed(&mut self, prop: &str, ops: &[Op]) -> bool {
            let lower = prop.to_lowercase();
            for i in 0..ops.len() {
                for j in (i + 1)..ops.len() {
                    let sig = pair_sig(&lower, &[ops[i], ops[j]]);
                    if self.findings.iter().any(|f| f.prop == prop && f.sig == sig) {
                        self.k.stat("triple_runs_with_defect_already_known_from_a_pair");
                        return true;
                    }
                }
            }
            false
        }

        fn write_replay(&mut self, text: &str) -> String {
            let name = format!("{}/fail_{}.txt", self.out, self.nfail);
            self.nfail += 1;
            let _ = std::fs::write(&name, text);
            name
        }

        /// record a finding; the replay text is only written for the first occurrence of (sig, class)
        #[allow(clippy::too_many_arguments)]
        fn finding(&mut self, prop: &'static str, sig: String, class: &str, variant: String, msg: String, pair_index: Option<usize>, replay: impl FnOnce() -> String) {
            if let Some(f) = self.findings.iter_mut().find(|f| f.sig == sig && f.class == class) {
                f.count += 1;
                *f.variants.entry(variant).or_insert(0) += 1;
                return;
            }
            let text = replay();
            let file = self.write_replay(&text);
            let mut variants = BTreeMap::new();
            variants.insert(variant, 1);
            self.findings.push(Finding { prop, sig, class: class.to_string(), variants, msg, replay: file, count: 1, pair_index });
        }
    }

    fn pair_sig(prefix: &str, ops: &[Op]) -> String {
        if prefix == "c16" && ops.len() == 2 && ops.iter().all(|o| matches!(o, LoadEmpty1 | LoadEmpty2)) {
            return "c16:concurrent-load-into-empty-model".into();
        }
        let mut o: Vec<Op> = ops.to_vec();
        o.sort();
        let sep = if prefix.contains(':') { '-' } else { ':' };
        format!("{prefix}{sep}{}", o.iter().map(|x| x.name()).collect::<Vec<_>>().join("-vs-"))
    }

    fn replay_header(ops: &[Op], run: &Run) -> String {
        let mut s = String::new();
        let _ = writeln!(s, "scenario conc: operations on a fresh fixture (see conc.rs, Fx::build), one thread each, under the lock shim scheduler");
        for (i, op) in ops.iter().enumerate() {
            let _ = writeln!(s, "T{i}: {} = {}", op.name(), op.describe());
        }
        let _ = writeln!(s, "schedule (thread chosen at each scheduling point): {}", natlist(&run.decisions.iter().map(|d| d.0).collect::<Vec<_>>()));
        let _ = writeln!(s, "preemptions: {}", preemptions(&run.decisions));
        let _ = writeln!(s, "trace (thread, event, lock, acquisition site, runnable threads):");
        for l in &run.trace {
            let _ = writeln!(s, "  {l}");
        }
        if !run.rets.is_empty() {
            let _ = writeln!(s, "results:");
            for (i, r) in run.rets.iter().enumerate() {
                let _ = writeln!(s, "  T{i} {} -> {}", ops[i].name(), r.text);
            }
        }
        s
    }

    fn dump_diff(a: &str, b: &str) -> String {
        let la: Vec<&str> = a.lines().collect();
        let lb: Vec<&str> = b.lines().collect();
        let sa: BTreeSet<&str> = la.iter().copied().collect();
        let sb: BTreeSet<&str> = lb.iter().copied().collect();
        let mut s = String::new();
        for l in la.iter().filter(|l| !sb.contains(*l)) {
            let _ = writeln!(s, "  - {l}");
        }
        for l in lb.iter().filter(|l| !sa.contains(*l)) {
            let _ = writeln!(s, "  + {l}");
        }
        if s.is_empty() && a != b {
            s.push_str("  (same lines in a different order)\n");
        }
        s
    }

    fn permutations(items: &[usize]) -> Vec<Vec<usize>> {
        if items.len() <= 1 {
            return vec![items.to_vec()];
        }
        let mut res = vec![];
        for i in 0..items.len() {
            let mut rest = items.to_vec();
            let x = rest.remove(i);
            for mut p in permutations(&rest) {
                p.insert(0, x);
                res.push(p);
            }
        }
        res
    }

    /// all oracles on one scheduled run
    fn check_run(cx: &mut Ctx, ops: &[Op], run: &Run) {
        let pair_index = if ops.len() == 2 && ops.iter().all(|o| o.pair_index() != usize::MAX) {
            Some(ops[0].pair_index() * PAIRED.len() + ops[1].pair_index())
        } else {
            None
        };
        if run.out.stuck {
            let sig = pair_sig("c15", ops);
            cx.finding("C15", sig, "stuck", String::new(), "a thread blocked outside of the scheduler's control (no progress for 10 s)".into(), pair_index, || replay_header(ops, run));
            return;
        }
        // C12/C15: a blocking acquisition of a lock the thread itself holds
        for (t, ev) in &run.out.trace {
            if ev.kind == LockEventKind::SelfDeadlock {
                let sig = format!("c15:self-deadlock-{}", ops[*t].name());
                let s = site(ev.file, ev.line);
                cx.finding("C15", sig, "self-deadlock", s.clone(), format!("{} blocks on a lock that its own thread already holds, at {s}", ops[*t].name()), None, || replay_header(ops, run));
            }
        }
        if let Some(d) = &run.out.deadlock {
            let fx_roles = |id: u64| -> String {
                // lock ids in the report are absolute; the trace lines carry the relative ones. Find it there.
                run.out
                    .trace
                    .iter()
                    .position(|(_, e)| e.lock == id)
                    .and_then(|p| run.trace[p].split(' ').nth(2).map(str::to_string))
                    .unwrap_or_else(|| format!("lock{id}"))
            };
            let mut parts = vec![];
            let mut sites = vec![];
            let mut cycle = vec![];
            for w in &d.waits {
                let holders: Vec<String> = w
                    .holders
                    .iter()
                    .map(|h| format!("T{} {} ({} since {})", h.thread, ops[h.thread].name(), if h.write { "write" } else { "read" }, site(h.file, h.line)))
                    .collect();
                let mut why = format!("held by {}", if holders.is_empty() { "nobody".to_string() } else { holders.join(" and ") });
                if let Some(ww) = w.behind_waiting_writer {
                    let _ = write!(why, ", new readers are blocked by the waiting writer T{ww}");
                }
                parts.push(format!(
                    "T{} {} waits for {} of {} at {}, {}",
                    w.thread,
                    ops[w.thread].name(),
                    if w.write { "write" } else { "read" },
                    fx_roles(w.lock),
                    site(w.file, w.line),
                    why
                ));
                let mut hs: Vec<String> = w.holders.iter().map(|h| format!("{}@{}", ops[h.thread].name(), site(h.file, h.line))).collect();
                hs.sort();
                sites.push(format!("{}:{}@{}<-{}", ops[w.thread].name(), if w.write { "W" } else { "R" }, site(w.file, w.line), hs.join("+")));
                let mut hs: Vec<String> = w.holders.iter().map(|h| format!("{}@{}", if h.write { "W" } else { "R" }, site(h.file, h.line))).collect();
                hs.sort();
                hs.dedup();
                if w.behind_waiting_writer.is_some() && w.holders.iter().any(|h| h.thread == w.thread) {
                    // the thread reads a lock again that it already holds for reading; the other thread's write request is queued in between
                    cycle.push(format!("recursive read while {} is still held (queued behind the other thread's waiting write)", hs.join("+")));
                } else {
                    cycle.push(format!("{} at {} blocked by holder {}", if w.write { "write" } else { "read" }, site(w.file, w.line), hs.join("+")));
                }
            }
            sites.sort();
            cycle.sort();
            // a deadlock between two of three threads belongs to that pair of operations
            let involved: Vec<Op> = d.waits.iter().map(|w| ops[w.thread]).collect();
            let sig = if involved.len() == 2 && ops.len() > 2 { pair_sig("c15", &involved) } else { pair_sig("c15", ops) };
            if ops.len() > 2 && cx.subsumed("C15", ops) {
                cx.cycles.entry(cycle.join("  <->  ")).or_default().insert(sig.trim_start_matches("c15:").to_string());
                return;
            }
            cx.cycles.entry(cycle.join("  <->  ")).or_default().insert(sig.trim_start_matches("c15:").to_string());
            cx.finding("C15", sig, "deadlock", sites.join(" | "), format!("deadlock: {}", parts.join("; ")), pair_index, || replay_header(ops, run));
            return;
        }
        // C12: panics
        for (i, r) in run.rets.iter().enumerate() {
            if r.panicked {
                let sig = pair_sig("c12:panic", ops);
                cx.finding("C12", sig, "panic", r.text.chars().take(80).collect(), format!("{} panics when running concurrently: {}", ops[i].name(), r.text), None, || replay_header(ops, run));
                return;
            }
        }
        // C16: some serial order of the operations that did not report ParentElementLocked explains results and final state
        let n = ops.len();
        let locked: Vec<usize> = (0..n).filter(|i| run.rets[*i].locked).collect();
        let mut candidates: Vec<Vec<usize>> = vec![];
        // every subset of the locked operations may be treated as "had no effect"; the others take part in the order
        for mask in 0..(1u32 << locked.len()) {
            let dropped: Vec<usize> = locked.iter().enumerate().filter(|(b, _)| mask & (1 << b) != 0).map(|(_, i)| *i).collect();
            let kept: Vec<usize> = (0..n).filter(|i| !dropped.contains(i)).collect();
            candidates.extend(permutations(&kept));
        }
        let mut matched = false;
        let mut best: Option<(Vec<usize>, Serial)> = None;
        let mut serial_inv: BTreeSet<String> = BTreeSet::new();
        for cand in &candidates {
            let seq: Vec<Op> = cand.iter().map(|i| ops[*i]).collect();
            let s = cx.serial(&seq);
            serial_inv.extend(s.inv.iter().cloned());
            let rets_ok = cand.iter().enumerate().all(|(pos, i)| s.rets[pos] == run.rets[*i]);
            if rets_ok && s.dump == run.dump {
                matched = true;
                break;
            }
            let better = match &best {
                None => true,
                Some(_) => rets_ok,
            };
            if better {
                best = Some((cand.clone(), s));
            }
        }
        if ops.len() > 2 && cx.subsumed("C16", ops) {
            return;
        }
        if !matched {
            let sig = pair_sig("c16", ops);
            // classify: wrong results with an explainable final state, or a wrong final state
            let dump_known = candidates.iter().any(|c| {
                let seq: Vec<Op> = c.iter().map(|i| ops[*i]).collect();
                cx.serial(&seq).dump == run.dump
            });
            let locked_note = if locked.is_empty() { String::new() } else { format!(" ({} returned ParentElementLocked)", locked.iter().map(|i| ops[*i].name()).collect::<Vec<_>>().join(",")) };
            let (detail, msg) = if dump_known {
                ("results", format!("not serializable: the returned values {:?} match no serial order although the final state does{locked_note}", run.rets.iter().map(|r| r.text.as_str()).collect::<Vec<_>>()))
            } else {
                ("state", format!("not serializable: the final state of the model equals that of no serial order{locked_note}"))
            };
            let text = || {
                let mut s = replay_header(ops, run);
                for cand in &candidates {
                    let seq: Vec<Op> = cand.iter().map(|i| ops[*i]).collect();
                    if let Some(ser) = cx.serial.get(&seq) {
                        let _ = writeln!(s, "serial order [{}]:", seq.iter().map(|o| o.name()).collect::<Vec<_>>().join(" ; "));
                        for (pos, i) in cand.iter().enumerate() {
                            let _ = writeln!(s, "  T{i} {} -> {}{}", ops[*i].name(), ser.rets[pos].text, if ser.rets[pos] == run.rets[*i] { "" } else { "   <-- differs" });
                        }
                        if ser.dump == run.dump {
                            let _ = writeln!(s, "  final state: equal");
                        } else {
                            let _ = writeln!(s, "  final state differs (- serial, + concurrent):");
                            s.push_str(&dump_diff(&ser.dump, &run.dump));
                        }
                    }
                }
                let _ = writeln!(s, "final state after the concurrent run:\n{}", run.dump);
                s
            };
            let text = text();
            cx.finding("C16", sig, detail, String::new(), msg, pair_index, move || text);
            let _ = best;
        }
        // invariants: anything that no serial order shows either
        let new_inv: Vec<&String> = run.inv.iter().filter(|v| !serial_inv.contains(*v)).collect();
        if !new_inv.is_empty() {
            let sig = pair_sig("c16", ops);
            let first = new_inv[0].clone();
            let all: Vec<String> = new_inv.iter().map(|s| s.to_string()).collect();
            cx.finding("C16", sig, "invariant", first.clone(), format!("invariant broken after the concurrent run: {first}"), pair_index, || {
                let mut s = replay_header(ops, run);
                let _ = writeln!(s, "violated invariants:");
                for v in &all {
                    let _ = writeln!(s, "  {v}");
                }
                let _ = writeln!(s, "final state after the concurrent run:\n{}", run.dump);
                s
            });
        }
    }

    // --------------------------------------------------------------------------------------------
    // schedule exploration
    // --------------------------------------------------------------------------------------------

    #[derive(Clone, Copy)]
    struct Budget {
        bound: usize,
        cap: usize,
        nrandom: usize,
        time: Duration,
    }

    fn explore(cx: &mut Ctx, rng: &mut Rng, ops: &[Op], b: &Budget) {
        let start = Instant::now();
        let n = ops.len();
        let label = ops.iter().map(|o| o.name()).collect::<Vec<_>>().join(" ");
        let mut seen: HashSet<Vec<usize>> = HashSet::new();
        // frontier per number of preemptions
        let mut levels: Vec<Vec<Vec<usize>>> = vec![vec![]; b.bound + 1];
        for t in 0..n {
            levels[0].push(vec![t]);
        }
        let mut runs = 0usize;
        let mut do_run = |cx: &mut Ctx, schedule: Vec<usize>, levels: Option<&mut Vec<Vec<Vec<usize>>>>, kind: &str| {
            let plen = schedule.len();
            let run = run_sched(ops, schedule);
            cx.runs += 1;
            let chosen: Vec<usize> = run.decisions.iter().map(|d| d.0).collect();
            if !seen.insert(chosen.clone()) {
                cx.k.stat("schedules_duplicate");
                return;
            }
            let pre = preemptions(&run.decisions);
            cx.k.stat(&format!("schedules_{kind}"));
            cx.k.stat(&format!("schedules_with_{}_preemptions", pre.min(4)));
            let switches = (1..chosen.len()).filter(|j| chosen[*j] != chosen[*j - 1]).count();
            let outcome = if run.out.stuck {
                "stuck".to_string()
            } else if run.out.deadlock.is_some() {
                cx.k.stat("runs_deadlock");
                "deadlock".to_string()
            } else {
                if run.rets.iter().any(|r| r.locked) {
                    cx.k.stat("runs_with_parent_locked");
                }
                run.rets.iter().map(|r| r.text.replace('\n', " ")).collect::<Vec<_>>().join(" | ")
            };
            let h = digest(&chosen.iter().map(|c| *c as u64).collect::<Vec<_>>());
            cx.k.put(&format!("run {label} steps={} switches={switches} sched={h:x}", chosen.len()), &outcome, switches > 1);
            check_run(cx, ops, &run);
            if let Some(levels) = levels {
                // children: deviate from this run at one later decision
                for i in plen..run.decisions.len() {
                    for alt in &run.decisions[i].1 {
                        if *alt == chosen[i] {
                            continue;
                        }
                        let mut p: Vec<usize> = chosen[..i].to_vec();
                        p.push(*alt);
                        let mut dec: Vec<(usize, Vec<usize>)> = run.decisions[..i].to_vec();
                        dec.push((*alt, run.decisions[i].1.clone()));
                        let pre = preemptions(&dec);
                        if pre < levels.len() {
                            levels[pre].push(p);
                        }
                    }
                }
            }
        };
        for level in 0..=b.bound {
            // levels 0 and 1 in full (as far as the cap allows), deeper levels sampled
            loop {
                if runs >= b.cap || start.elapsed() > b.time || levels[level].is_empty() {
                    break;
                }
                let idx = if level <= 1 { 0 } else { rng.below(levels[level].len()) };
                let p = levels[level].swap_remove(idx);
                runs += 1;
                let mut lv = std::mem::take(&mut levels);
                do_run(cx, p, Some(&mut lv), "systematic");
                levels = lv;
            }
        }
        if levels.iter().all(|l| l.is_empty()) {
            cx.k.stat("pairs_explored_exhaustively_within_bound");
        }
        for _ in 0..b.nrandom {
            if start.elapsed() > b.time + b.time / 4 {
                break;
            }
            let mut cur = rng.below(n);
            let den = 2 + rng.below(12) as u64;
            let sched: Vec<usize> = (0..600)
                .map(|_| {
                    if rng.chance(1, den) {
                        cur = rng.below(n);
                    }
                    cur
                })
                .collect();
            do_run(cx, sched, None, "random");
        }
    }

    // --------------------------------------------------------------------------------------------
    // lock programs (mode 1)
    // --------------------------------------------------------------------------------------------

    fn lock_programs(cx: &mut Ctx) {
        let mut text = String::new();
        let mut roles_text = String::new();
        for op in ALL {
            let fx = Fx::build();
            if roles_text.is_empty() {
                for r in 0..fx.size {
                    let role = fx.roles.get(&r).cloned().unwrap_or_else(|| "unused".to_string());
                    let _ = writeln!(roles_text, "{r} {role}");
                }
            }
            let f = fx.make(op);
            vl::verif_lock_mode(1);
            let _ = vl::verif_lock_take_log();
            let t0 = Instant::now();
            let r = match catch_unwind(AssertUnwindSafe(f)) {
                Ok(r) => r,
                Err(p) => Ret::Panic(panic_text(p)),
            };
            let elapsed = t0.elapsed();
            let log: Vec<LockEvent> = vl::verif_lock_take_log();
            vl::verif_lock_mode(0);
            let r = fx.render(r);
            let mut prog = String::new();
            let mut kinds: BTreeMap<&'static str, u32> = BTreeMap::new();
            for ev in &log {
                let _ = writeln!(prog, "{} {} {} {}", op.name(), ev.kind.name(), fx.lid(ev.lock), site(ev.file, ev.line));
                *kinds.entry(ev.kind.name()).or_insert(0) += 1;
            }
            let res = if r.locked { "locked" } else if r.panicked || r.text.starts_with("Err(") { "err" } else { "ok" };
            let _ = writeln!(prog, "end {} {res}", op.name());
            text.push_str(&prog);
            cx.k.stat("lock_programs");
            cx.k.put(&format!("lockprogram {}", op.name()), &format!("{} events {kinds:?} -> {}", log.len(), r.text.replace('\n', " ")), true);
            // C12: single-threaded use never blocks and never reports a locked parent
            let replay = |what: &str| format!("single-threaded: {} = {}\non a fresh fixture (conc.rs, Fx::build)\n{what}\nresult: {}\nlock program (op kind lock site):\n{prog}", op.name(), op.describe(), r.text);
            for ev in &log {
                if ev.kind == LockEventKind::SelfDeadlock {
                    let s = site(ev.file, ev.line);
                    cx.finding("C12", format!("c12:self-deadlock-{}", op.name()), "self-deadlock", s.clone(), format!("single-threaded {} would block forever: blocking acquisition of {} which the thread already holds, at {s}", op.name(), fx.lid_role(ev.lock)), None, || replay("SelfDeadlock event"));
                }
                if ev.kind == LockEventKind::TryFail {
                    let s = site(ev.file, ev.line);
                    let sig = if op == MoveToAncestor { "c12:move-to-ancestor-parent-locked".to_string() } else { format!("c12:try-fail-{}", op.name()) };
                    cx.finding("C12", sig, "try-fail", s.clone(), format!("single-threaded {}: a (timed) try-acquisition of {} fails at {s} because the thread itself holds the lock", op.name(), fx.lid_role(ev.lock)), None, || replay("TryFail event"));
                }
            }
            if r.locked {
                let sig = if op == MoveToAncestor { "c12:move-to-ancestor-parent-locked".to_string() } else { format!("c12:parent-locked-{}", op.name()) };
                cx.finding("C12", sig, "parent-locked", String::new(), format!("single-threaded {} ({}) returns ParentElementLocked although no other operation is in progress", op.name(), op.describe()), None, || replay("ParentElementLocked result"));
            }
            if r.panicked {
                cx.finding("C12", format!("c12:panic-{}", op.name()), "panic", String::new(), format!("single-threaded {} panics: {}", op.name(), r.text), None, || replay("panic"));
            }
            if elapsed > Duration::from_secs(2) {
                cx.finding("C12", format!("c12:slow-{}", op.name()), "slow", String::new(), format!("single-threaded {} blocks for {elapsed:?}", op.name()), None, || replay("slow"));
            }
        }
        let _ = std::fs::write(format!("{}/lockprograms.txt", cx.out), text);
        let _ = std::fs::write(format!("{}/lockroles.txt", cx.out), roles_text);
    }

    // --------------------------------------------------------------------------------------------
    // real threads (mode 0), in a child process
    // --------------------------------------------------------------------------------------------

    /// `avharness concchild <pair-index>`: two real threads repeat the two operations on fresh fixtures for up to 3 s.
    /// exit code 0: no hang; 3: a round did not finish within 2 s (the process exits with the threads still blocked)
    pub fn child() {
        let idx: usize = std::env::args().nth(2).and_then(|a| a.parse().ok()).unwrap_or(0);
        let a = PAIRED[(idx / PAIRED.len()) % PAIRED.len()];
        let b = PAIRED[idx % PAIRED.len()];
        std::panic::set_hook(Box::new(|_| {}));
        vl::verif_lock_mode(0);
        let start = Instant::now();
        let mut rounds = 0u64;
        while start.elapsed() < Duration::from_secs(3) {
            rounds += 1;
            let fx = Arc::new(Fx::build());
            let barrier = Arc::new(std::sync::Barrier::new(2));
            let (tx, rx) = std::sync::mpsc::channel::<()>();
            for op in [a, b] {
                // the operation is repeated on the same fixture to widen the window; later repetitions may simply fail
                let fs: Vec<Box<dyn FnOnce() -> Ret + Send>> = (0..6).map(|_| fx.make(op)).collect();
                let barrier = barrier.clone();
                let tx = tx.clone();
                std::thread::spawn(move || {
                    barrier.wait();
                    for f in fs {
                        let _ = catch_unwind(AssertUnwindSafe(f));
                    }
                    let _ = tx.send(());
                });
            }
            for _ in 0..2 {
                if rx.recv_timeout(Duration::from_secs(2)).is_err() {
                    println!("hang after {rounds} rounds: {} vs {}", a.name(), b.name());
                    std::process::exit(3);
                }
            }
        }
        println!("no hang in {rounds} rounds: {} vs {}", a.name(), b.name());
        std::process::exit(0);
    }

    /// run the children for the given pair indices, a few at a time; returns pair index -> (reproduced, text)
    fn confirm_real(pairs: &[usize]) -> HashMap<usize, (bool, String)> {
        let mut res = HashMap::new();
        let exe = match std::env::current_exe() {
            Ok(e) => e,
            Err(_) => return res,
        };
        for chunk in pairs.chunks(8) {
            let mut kids = vec![];
            for p in chunk {
                let c = std::process::Command::new(&exe)
                    .args(["concchild", &p.to_string()])
                    .stdout(std::process::Stdio::piped())
                    .stderr(std::process::Stdio::null())
                    .spawn();
                if let Ok(c) = c {
                    kids.push((*p, c));
                }
            }
            let t0 = Instant::now();
            for (p, mut c) in kids {
                loop {
                    match c.try_wait() {
                        Ok(Some(st)) => {
                            let mut txt = String::new();
                            if let Some(mut o) = c.stdout.take() {
                                use std::io::Read;
                                let _ = o.read_to_string(&mut txt);
                            }
                            res.insert(p, (st.code() == Some(3), txt.trim().to_string()));
                            break;
                        }
                        Ok(None) if t0.elapsed() > Duration::from_secs(9) => {
                            let _ = c.kill();
                            let _ = c.wait();
                            res.insert(p, (true, "child did not terminate and was killed".to_string()));
                            break;
                        }
                        Ok(None) => std::thread::sleep(Duration::from_millis(20)),
                        Err(_) => break,
                    }
                }
            }
        }
        res
    }

    // --------------------------------------------------------------------------------------------
    // the scenario
    // --------------------------------------------------------------------------------------------

    pub fn run(out: &str, seed: u64, thorough: bool, _side: &str) {
        let t_start = Instant::now();
        let prev = std::panic::take_hook();
        std::panic::set_hook(Box::new(|_| {}));
        let mut rng = Rng::new(seed);
        // a second stream derived from the seed, for the pairs with the operations of EXTRA
        let mut rng_extra = Rng(Rng::new(seed).next() ^ 0x6578_7472_615f_6f70);
        let mut cx = Ctx { out: out.to_string(), k: Sink::new(out), findings: vec![], nfail: 0, serial: HashMap::new(), runs: 0, cycles: BTreeMap::new() };
        vl::verif_lock_mode(0);

        // 1. lock programs
        lock_programs(&mut cx);

        // 2. pairs under the scheduler
        let nw = MAIN.iter().filter(|o| o.is_writer()).count();
        let mut pairs: Vec<[Op; 2]> = vec![];
        if thorough {
            for a in MAIN {
                for b in MAIN {
                    pairs.push([a, b]);
                }
            }
        } else {
            // every writer x writer combination (one order, including an operation with itself) ...
            for i in 0..nw {
                for j in i..nw {
                    pairs.push(if rng.chance(1, 2) { [MAIN[i], MAIN[j]] } else { [MAIN[j], MAIN[i]] });
                }
            }
            // ... and a seeded sample of the pairs that involve a reader
            let mut rest: Vec<[Op; 2]> = vec![];
            for a in MAIN {
                for b in MAIN {
                    if !(a.is_writer() && b.is_writer()) {
                        rest.push([a, b]);
                    }
                }
            }
            for _ in 0..26 {
                let i = rng.below(rest.len());
                pairs.push(rest.swap_remove(i));
            }
            // the known deadlock is always part of the sample
            if !pairs.iter().any(|p| p.contains(&SetRefTarget) && p.contains(&CheckRefs)) {
                pairs.push([SetRefTarget, CheckRefs]);
            }
        }
        // the known lost-update case: two loads into an empty model
        pairs.push([LoadEmpty1, LoadEmpty2]);
        // the operations of EXTRA: always the targeted pairs; thorough: also every other pair with them. They are explored after
        // everything else, with random choices and a time allowance of their own: neither the schedules drawn for the pairs
        // above nor their share of the time depend on them, and a slow machine cannot leave them without schedules
        let targeted = targeted_pairs();
        cx.k.stats.insert("pairs_targeted".into(), targeted.len() as u64);
        let mut extra_pairs: Vec<[Op; 2]> = targeted.clone();
        if thorough {
            for a in PAIRED {
                for b in PAIRED {
                    if (EXTRA.contains(&a) || EXTRA.contains(&b)) && !targeted.contains(&[a, b]) {
                        extra_pairs.push([a, b]);
                    }
                }
            }
        }
        // the number of schedules per combination is fixed; the time limit is only a safety net on a slow machine
        let budget = if thorough {
            Budget { bound: 3, cap: 400, nrandom: 50, time: Duration::from_secs(5) }
        } else {
            Budget { bound: 2, cap: 110, nrandom: 10, time: Duration::from_millis(1200) }
        };
        cx.k.stats.insert("pairs".into(), (pairs.len() + extra_pairs.len()) as u64);
        cx.k.stats.insert("preemption_bound".into(), budget.bound as u64);
        // if the machine is slow, the remaining combinations share the remaining time (fewer schedules each)
        let explore_deadline = t_start + if thorough { Duration::from_secs(10 * 60) } else { Duration::from_secs(50) };
        let explore_pairs = |cx: &mut Ctx, rng: &mut Rng, pairs: &[[Op; 2]], deadline: Instant| {
            for (i, p) in pairs.iter().enumerate() {
                let share = deadline.saturating_duration_since(Instant::now()) / (pairs.len() - i) as u32;
                let budget = Budget { time: budget.time.min(share * 3), ..budget };
                explore(cx, rng, p, &budget);
                cx.k.stat(match (p[0].is_writer(), p[1].is_writer()) {
                    (true, true) => "pairs_writer_writer",
                    (false, false) => "pairs_reader_reader",
                    _ => "pairs_reader_writer",
                });
            }
        };
        explore_pairs(&mut cx, &mut rng, &pairs, explore_deadline);
        // triples (thorough tier)
        if thorough {
            let ntriples = 40;
            let tb = Budget { bound: 2, cap: 120, nrandom: 30, time: Duration::from_secs(5) };
            for _ in 0..ntriples {
                let t = [MAIN[rng.below(nw)], MAIN[rng.below(MAIN.len())], MAIN[rng.below(MAIN.len())]];
                explore(&mut cx, &mut rng, &t, &tb);
                cx.k.stat("triples");
            }
        }
        // the pairs with the operations of EXTRA (quick: about 2500 schedules, a few seconds)
        let t_extra = Instant::now();
        let runs_before = cx.runs;
        explore_pairs(&mut cx, &mut rng_extra, &extra_pairs, t_extra + if thorough { Duration::from_secs(150) } else { Duration::from_secs(10) });
        cx.k.stats.insert("scheduled_runs_targeted_and_extra_pairs".into(), cx.runs - runs_before);
        cx.k.stats.insert("seconds_for_targeted_and_extra_pairs".into(), t_extra.elapsed().as_secs());
        cx.k.stats.insert("scheduled_runs".into(), cx.runs);
        cx.k.stats.insert("seconds_until_exploration_done".into(), t_start.elapsed().as_secs());

        // 3. deadlocking pairs again with real threads
        let mut dl_pairs: Vec<usize> = cx.findings.iter().filter(|f| f.prop == "C15").filter_map(|f| f.pair_index).collect();
        dl_pairs.sort();
        dl_pairs.dedup();
        let max_children = if thorough { PAIRED.len() * PAIRED.len() } else { 16 };
        if dl_pairs.len() > max_children {
            // keep a seeded sample within the time limit
            while dl_pairs.len() > max_children {
                let i = rng.below(dl_pairs.len());
                dl_pairs.remove(i);
            }
        }
        let real = confirm_real(&dl_pairs);
        cx.k.stats.insert("real_thread_children".into(), real.len() as u64);
        cx.k.stats.insert("real_thread_hangs".into(), real.values().filter(|r| r.0).count() as u64);

        // report
        let mut summary = String::new();
        let mut findings = std::mem::take(&mut cx.findings);
        // the sink keeps a limited number of failure lines: the findings of the targeted pairs, which are explored last, are
        // reported first so that they are never the ones that are cut off (stable: the order is otherwise unchanged)
        findings.sort_by_key(|f| !EXTRA.iter().any(|o| f.sig.contains(o.name())));
        for f in &findings {
            let mut msg = format!("[{}][sig={}] {}", f.prop, f.sig, f.msg);
            if f.prop == "C15" {
                match f.pair_index.and_then(|p| real.get(&p)) {
                    Some((true, t)) => {
                        let _ = write!(msg, "; reproduced with two real threads ({t})");
                    }
                    Some((false, t)) => {
                        let _ = write!(msg, "; not reproduced with two real threads within 3 s ({t})");
                    }
                    None => {
                        let _ = write!(msg, "; real threads not tried");
                    }
                }
            }
            if f.variants.len() > 1 {
                let _ = write!(msg, " [{} variants, listed in findings.txt]", f.variants.len());
            }
            let _ = write!(msg, " [seen in {} schedules] replay={}", f.count, f.replay);
            let _ = writeln!(summary, "{msg}");
            for (v, c) in &f.variants {
                if !v.is_empty() {
                    let _ = writeln!(summary, "    variant ({c}x): {v}");
                }
            }
            cx.k.stat(&format!("findings_{}", f.prop));
            cx.k.fail(msg);
        }
        let mut sigs: Vec<&str> = findings.iter().map(|f| f.sig.as_str()).collect();
        sigs.sort();
        sigs.dedup();
        cx.k.stats.insert("distinct_signatures".into(), sigs.len() as u64);
        let _ = writeln!(summary, "\n== distinct lock cycles (acquisition sites without operation names) and the combinations that run into them");
        for (c, ps) in &cx.cycles {
            let _ = writeln!(summary, "cycle: {c}\n    in: {}", ps.iter().cloned().collect::<Vec<_>>().join(", "));
        }
        cx.k.stats.insert("distinct_lock_cycles".into(), cx.cycles.len() as u64);
        let _ = std::fs::write(format!("{out}/findings.txt"), summary);
        cx.k.stats.insert("wall_seconds".into(), t_start.elapsed().as_secs());
        std::panic::set_hook(prev);
        let extra = format!("\"signatures\": [{}]", sigs.iter().map(|s| json_str(s)).collect::<Vec<_>>().join(", "));
        cx.k.finish(out, &extra);
    }
}
