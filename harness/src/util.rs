//! Small shared helpers: PRNG, hex coding, digests, request/answer sink.
use std::fmt::Write as _;
use std::io::Write;

/// splitmix64: every random choice of a run derives from one state seeded by VERIF_SEED
#[derive(Clone)]
pub struct Rng(pub u64);
impl Rng {
    pub fn new(seed: u64) -> Self {
        Rng(seed.wrapping_mul(0x9E37_79B9_7F4A_7C15) ^ 0xD1B5_4A32_D192_ED03)
    }
    pub fn next(&mut self) -> u64 {
        self.0 = self.0.wrapping_add(0x9E37_79B9_7F4A_7C15);
        let mut z = self.0;
        z = (z ^ (z >> 30)).wrapping_mul(0xBF58_476D_1CE4_E5B9);
        z = (z ^ (z >> 27)).wrapping_mul(0x94D0_49BB_1331_11EB);
        z ^ (z >> 31)
    }
    pub fn below(&mut self, n: usize) -> usize {
        if n == 0 { 0 } else { (self.next() % n as u64) as usize }
    }
    pub fn chance(&mut self, num: u64, den: u64) -> bool {
        self.next() % den < num
    }
    pub fn pick<'a, T>(&mut self, v: &'a [T]) -> &'a T {
        &v[self.below(v.len())]
    }
}

pub fn hex(b: &[u8]) -> String {
    if b.is_empty() {
        return "-".to_string();
    }
    let mut s = String::with_capacity(b.len() * 2);
    for x in b {
        let _ = write!(s, "{:02x}", x);
    }
    s
}

pub fn unhex(s: &str) -> Option<Vec<u8>> {
    if s == "-" {
        return Some(vec![]);
    }
    if s.len() % 2 != 0 {
        return None;
    }
    (0..s.len()).step_by(2).map(|i| u8::from_str_radix(&s[i..i + 2], 16).ok()).collect()
}

pub fn natlist(l: &[usize]) -> String {
    if l.is_empty() {
        "-".to_string()
    } else {
        l.iter().map(|x| x.to_string()).collect::<Vec<_>>().join(",")
    }
}

/// same digest as `digest` in lean/Driver/Main.lean
pub fn digest(l: &[u64]) -> u64 {
    let m: u128 = 2305843009213693951;
    let mut a: u128 = 7;
    for x in l {
        a = (a * 1000003 + *x as u128 + 1) % m;
    }
    a as u64
}

/// discriminant of a `#[repr(u16)]` fieldless enum of the specification crate
pub fn id16<T: Copy>(x: T) -> u16 {
    assert_eq!(std::mem::size_of::<T>(), 2);
    unsafe { std::mem::transmute_copy::<T, u16>(&x) }
}

/// Collects the request stream, the implementation's answers and the oracle's verdicts.
pub struct Sink {
    req: std::io::BufWriter<std::fs::File>,
    ans: std::io::BufWriter<std::fs::File>,
    pub n: u64,
    pub oracle_failures: Vec<String>,
    pub stats: std::collections::BTreeMap<String, u64>,
    pub samples: Vec<String>,
    distinct: std::collections::HashSet<u64>,
    pub distinct_nontrivial: u64,
    fail_keys: std::collections::HashMap<String, u64>,
}

impl Sink {
    pub fn new(dir: &str) -> Self {
        std::fs::create_dir_all(dir).unwrap();
        Sink {
            req: std::io::BufWriter::new(std::fs::File::create(format!("{dir}/req.txt")).unwrap()),
            ans: std::io::BufWriter::new(std::fs::File::create(format!("{dir}/impl.txt")).unwrap()),
            n: 0,
            oracle_failures: vec![],
            stats: Default::default(),
            samples: vec![],
            distinct: Default::default(),
            distinct_nontrivial: 0,
            fail_keys: Default::default(),
        }
    }
    /// one request with the implementation's answer; `nontrivial` per the scenario's rule
    pub fn put(&mut self, req: &str, ans: &str, nontrivial: bool) {
        debug_assert!(!req.contains('\n') && !ans.contains('\n'));
        writeln!(self.req, "{req}").unwrap();
        writeln!(self.ans, "{ans}").unwrap();
        self.n += 1;
        if nontrivial {
            use std::hash::{Hash, Hasher};
            let mut h = std::collections::hash_map::DefaultHasher::new();
            req.hash(&mut h);
            if self.distinct.insert(h.finish()) {
                self.distinct_nontrivial += 1;
            }
        }
        if self.samples.len() < 12 && (self.n % 997 == 1 || self.n < 4) {
            let r: String = req.chars().take(160).collect();
            let a: String = ans.chars().take(160).collect();
            self.samples.push(format!("{r} -> {a}"));
        }
    }
    pub fn stat(&mut self, k: &str) {
        *self.stats.entry(k.to_string()).or_insert(0) += 1;
    }
    pub fn fail(&mut self, what: String) {
        // keep at most 3 examples per signature / message family, 60 in total, so that one frequent (e.g. known)
        // failure cannot crowd out a different one
        let key: String = if what.starts_with("[sig=") { what.split(']').next().unwrap_or("").to_string() } else { what.chars().take(48).collect() };
        let c = self.fail_keys.entry(key).or_insert(0);
        *c += 1;
        if *c <= 3 && self.oracle_failures.len() < 60 && !self.oracle_failures.contains(&what) {
            self.oracle_failures.push(what);
        }
        self.stat("oracle_failure");
    }
    pub fn finish(mut self, dir: &str, extra: &str) {
        self.req.flush().unwrap();
        self.ans.flush().unwrap();
        let mut s = String::new();
        s.push_str("{\n");
        let _ = write!(s, " \"requests\": {},\n \"distinct_nontrivial\": {},\n", self.n, self.distinct_nontrivial);
        let _ = write!(s, " \"oracle_failures\": [{}],\n", self.oracle_failures.iter().map(|x| json_str(x)).collect::<Vec<_>>().join(", "));
        let _ = write!(s, " \"n_oracle_failures\": {},\n", self.stats.get("oracle_failure").copied().unwrap_or(0));
        let _ = write!(s, " \"samples\": [{}],\n", self.samples.iter().map(|x| json_str(x)).collect::<Vec<_>>().join(", "));
        let _ = write!(s, " \"stats\": {{{}}}", self.stats.iter().map(|(k, v)| format!("{}: {}", json_str(k), v)).collect::<Vec<_>>().join(", "));
        if !extra.is_empty() {
            let _ = write!(s, ",\n {extra}");
        }
        s.push_str("\n}\n");
        std::fs::write(format!("{dir}/oracle.json"), s).unwrap();
    }
}

pub fn json_str(s: &str) -> String {
    let mut o = String::from("\"");
    for c in s.chars() {
        match c {
            '"' => o.push_str("\\\""),
            '\\' => o.push_str("\\\\"),
            '\n' => o.push_str("\\n"),
            '\r' => o.push_str("\\r"),
            '\t' => o.push_str("\\t"),
            c if (c as u32) < 0x20 => {
                let _ = write!(o, "\\u{:04x}", c as u32);
            }
            c => o.push(c),
        }
    }
    o.push('"');
    o
}
