use autosar_data_specification::*;
use std::collections::{HashMap, VecDeque};
fn main() {
    let mut seen: HashMap<String, Vec<ElementName>> = HashMap::new();
    let mut q = VecDeque::new();
    q.push_back((ElementType::ROOT, vec![ElementName::Autosar]));
    let mut found = vec![];
    while let Some((e, path)) = q.pop_front() {
        match e.chardata_spec() {
            Some(CharacterDataSpec::UnsignedInteger) => found.push(("uint elem", path.clone(), String::new())),
            Some(CharacterDataSpec::Float) => found.push(("float elem", path.clone(), String::new())),
            Some(CharacterDataSpec::String{preserve_whitespace, max_length}) => if path.len() < 7 { found.push(("string elem", path.clone(), format!("{preserve_whitespace} {max_length:?} {:?}", e.content_mode()))) },
            _ => {}
        }
        for (an, spec, _) in e.attribute_spec_iter() {
            match spec {
                CharacterDataSpec::UnsignedInteger => found.push(("uint attr", path.clone(), an.to_string())),
                CharacterDataSpec::Float => found.push(("float attr", path.clone(), an.to_string())),
                _ => {}
            }
        }
        for (n, sub, _, _) in e.sub_element_spec_iter() {
            let key = format!("{sub:?}");
            if !seen.contains_key(&key) { let mut p = path.clone(); p.push(n); seen.insert(key, p.clone()); q.push_back((sub, p)); }
        }
    }
    let mut cnt: HashMap<&str, usize> = HashMap::new();
    for (k, p, a) in found { let c = cnt.entry(k).or_insert(0); *c += 1; if *c <= 4 { println!("{k}: {} {a}", p.iter().map(|x| x.to_string()).collect::<Vec<_>>().join("/")); } }
}
