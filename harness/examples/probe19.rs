use autosar_data_specification::*;
use std::collections::{HashMap, VecDeque, HashSet};
fn main() {
    let mut fns: HashMap<&'static str, fn(&[u8]) -> bool> = HashMap::new();
    let mut seen = HashSet::new();
    let mut q = VecDeque::new();
    q.push_back(ElementType::ROOT);
    while let Some(e) = q.pop_front() {
        if let Some(CharacterDataSpec::Pattern { check_fn, regex, .. }) = e.chardata_spec() { fns.insert(regex, *check_fn); }
        for (_, spec, _) in e.attribute_spec_iter() {
            if let CharacterDataSpec::Pattern { check_fn, regex, .. } = spec { fns.insert(regex, *check_fn); }
        }
        for (_, sub, _, _) in e.sub_element_spec_iter() {
            if seen.insert(format!("{sub:?}")) { q.push_back(sub); }
        }
    }
    println!("{} validators reachable", fns.len());
    let args: Vec<String> = std::env::args().collect();
    for (rx, f) in &fns {
        if rx.starts_with(&args[1]) {
            for s in &args[2..] { println!("{rx}  {s:?} -> {}", f(s.as_bytes())); }
        }
    }
}
