#!/usr/bin/env python3
"""Writes MANIFEST.json from checks_config.py + manifest_texts.py and validates it against the schema."""
import json
import os
import subprocess
import sys

ROOT = os.path.dirname(os.path.abspath(__file__))
sys.path.insert(0, ROOT)
from checks_config import PROPS
from manifest_texts import TEXTS, NOT_APPLICABLE_REASON

props = [json.loads(l) for l in open(os.path.join(ROOT, "properties.jsonl"))]
hooks_commits = [l.strip() for l in open(os.path.join(ROOT, "hooks_commits.txt"))] if os.path.exists(os.path.join(ROOT, "hooks_commits.txt")) else []
man = {
    "version": 1,
    "setup_cmd": "./setup.sh",
    "hooks": {
        "guard": "--cfg danielt_autosar_data_verif",
        "enable": "RUSTFLAGS='--cfg danielt_autosar_data_verif' (set in harness/.cargo/config.toml; the harness crate has path dependencies on /repo)",
        "baseline_off_cmd": "cd /repo && cargo test --workspace --no-fail-fast --offline",
        "source_commits": hooks_commits,
        "add_only": True,
    },
    "engines": [
        {"name": "lean-model", "path": "lean/", "serves_properties": sorted(PROPS.keys()),
         "kind_free_text": "Lean 4 model (AutosarVerif/Model), generated tables (AutosarVerif/Gen, translator/gen.py), lemmas and property theorems; compiled driver avdriver"},
        {"name": "harness", "path": "harness/", "serves_properties": sorted(PROPS.keys()),
         "kind_free_text": "Rust crate with path dependencies on /repo: request generators, real-library evaluation, direct property oracles"},
    ],
    "checks": [],
    "notes": "Technique: machine-checked proof in Lean 4 about an executable model, tied to /repo by a translator (tables regenerated on every run) "
             "and a correspondence run (model driver vs real library on the same requests). See DESIGN.md.",
    "not_applicable": [],
}
for p in props:
    pid = p["id"]
    if pid in PROPS:
        t = TEXTS[pid]
        man["checks"].append({
            "property_id": pid,
            "quick_cmd": f"./check {pid} --tier quick",
            "thorough_cmd": f"./check {pid} --tier thorough",
            "evidence_file": f"/verif/evidence/{pid}.json",
            "replay_cmd_template": f"./check {pid} --replay {{path}}",
            "engine": "lean-model+harness",
            "level_claimed": {"category": "proof", "text": t["level_text"], "design_ref": t["design_ref"]},
            "level_note": t["level_note"],
            "technique": t["technique"],
        })
    else:
        man["not_applicable"].append({"property_id": pid, "reason": NOT_APPLICABLE_REASON.get(pid, "check not built yet in this state of /verif (planned, see DESIGN.md §10); nothing is claimed for it")})
json.dump(man, open(os.path.join(ROOT, "MANIFEST.json"), "w"), indent=1)
r = subprocess.run(["python3-vt", "-c", "import json,jsonschema,sys; jsonschema.validate(json.load(open('MANIFEST.json')), json.load(open('/root/.vp/MANIFEST.schema.json'))); print('MANIFEST valid')"], cwd=ROOT)
sys.exit(r.returncode)
