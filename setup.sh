#!/bin/sh
# MANIFEST.setup_cmd: build the framework from files on disk only (offline).
set -e
cd "$(dirname "$0")"
export CARGO_NET_OFFLINE=true
python3 translator/gen.py --report /dev/null || true
(cd lean && lake build AutosarVerif avdriver)
[ -f harness/Cargo.lock ] || cp /repo/Cargo.lock harness/Cargo.lock
(cd harness && cargo build --release --offline)
echo setup done
