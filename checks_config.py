"""Per-property configuration of ./check: Lean modules (proof closure), harness scenario, evidence texts."""
import glob
import os

ROOT = os.path.dirname(os.path.abspath(__file__))
GEN = os.path.join(ROOT, "lean", "AutosarVerif", "Gen")


def gen_modules(prefixes):
    out = []
    for p in sorted(glob.glob(os.path.join(GEN, "*.lean"))):
        name = os.path.basename(p)[:-5]
        if any(name.startswith(x) for x in prefixes):
            out.append("AutosarVerif.Gen." + name)
    return out


import re
import subprocess


def c19_classify(d, trep):
    """`validate k s` is answered by the model with the regex semantics (proved = Matches): a disagreement is a string on
    which the real validator and the published regex differ."""
    w = d["req"].split(" ")
    if w[0] == "validate":
        k, hx = w[1], w[2]
        th = trep.get("dfa", {}).get("table_hash", {}).get(k)
        if th is not None and int(k) in trep.get("dfa", {}).get("known_bad", []):
            return "known", f"regex{k}:table={th}:witness={hx}"
        s = bytes.fromhex(hx) if hx != "-" else b""
        return "violation", (f"validate_regex_{k} on {s!r} (hex {hx}): implementation answers `{d['impl']}`, the published regex "
                             f"says `{d['model']}`")
    return "model", None


def c19_search(failed_mods, ctx):
    """for every table whose certificate no longer checks: shortest distinguishing string from the DFA x derivative product
    (computed by the Lean driver), replayed on the real validator"""
    found, notes = [], []
    for fm in failed_mods:
        m = re.search(r"DfaCert_(\d+)$", fm)
        if not m:
            continue
        k = m.group(1)
        r = subprocess.run([ctx["driver"]], input=f"diffsearch {k}\n", capture_output=True, text=True, timeout=900)
        ans = r.stdout.strip()
        mm = re.match(r"ok (\S+) dfa=(\w+) regex=(\w+)", ans)
        if not mm:
            notes.append(f"diffsearch {k}: {ans or r.stderr[-200:]}")
            continue
        hx, dfa_says, regex_says = mm.groups()
        reqf = os.path.join(ctx["work"], f"search_{k}.txt")
        open(reqf, "w").write(f"validate {k} {hx}\n")
        out = os.path.join(ctx["work"], f"search_{k}")
        r2 = subprocess.run([ctx["harness"], "eval", "--replay", reqf, "--out", out, "--side", os.path.join(ctx["gen"], "side.json")],
                            capture_output=True, text=True, timeout=600)
        try:
            impl = open(os.path.join(out, "impl.txt")).read().strip()
        except OSError:
            impl = "?" + r2.stderr[-200:]
        s = bytes.fromhex(hx) if hx != "-" else b""
        if impl == f"ok {dfa_says}" and dfa_says != regex_says:
            found.append(f"validate_regex_{k} on {s!r} (hex {hx}): implementation answers `{impl}`, the published regex says `ok {regex_says}` "
                         f"(witness computed from the product of REGEX_{k}_TABLE and the derivatives of the regex)")
        else:
            notes.append(f"diffsearch {k}: witness {hx} (table model {dfa_says}, regex {regex_says}) but implementation answers {impl}")
    return found, notes


PROPS = {
    "C18": {
        "property_module": "AutosarVerif.Properties.C18",
        "modules": ["AutosarVerif.Properties.C18", "AutosarVerif.Lemmas.SpecCache"],
        "closure": lambda: ["AutosarVerif.Properties.C18", "AutosarVerif.Lemmas.Hash", "AutosarVerif.Lemmas.Spec",
                            "AutosarVerif.Lemmas.Versions", "AutosarVerif.Lemmas.SpecCache"]
        + gen_modules(["NamesElemProof", "NamesElemAll", "NamesAttrProof", "NamesAttrAll", "NamesEnumProof", "NamesEnumAll",
                       "Versions", "SpecWf"]),
        "scenario": "c18",
        "shape_parts": ["names", "hash"],
        "rule": "requests = to_str/from_bytes/from_str of every item of the three name enums, one-edit neighbours of members "
                "(case change, truncation, extension, swapped separator, high bit, deletion, duplication, transposition), empty / long / "
                "non-UTF-8 / random strings; every version value, file name and their neighbours, from_val on bits and non-bits; for every "
                "element type reachable from the root: type_info, the sub-element listing, find_sub_element for listed names per version bit "
                "(and with a mask outside the listed one), index-path queries (mask, multiplicity, container mode, common group), "
                "attribute listing and lookup; reference-type x identifiable-type DEST proposals. Each request is answered by the real "
                "library and by the Lean model and compared; non-trivial = a request line not seen before in this run (exact duplicates "
                "are not counted), excluding the empty-string probes.",
        "trusted_base": ["translator/gen.py (copies STRING_TABLE, DISPLACEMENTS, discriminants, hash constants, version arms and the seven "
                         "specification arrays into Lean; validates declared lengths and index ranges; shape fingerprints of from_bytes, "
                         "to_str and hashfunc)",
                         "harness/driver correspondence for the hand-modelled algorithms (hashfunc, from_bytes, find_sub_element, "
                         "get_sub_element_spec, find_common_group, find_attribute_spec, reference_dest_value, verify_reference_dest, "
                         "SubelemDefinitionsIter)"],
        "assumptions": ["little-endian host (hashfunc uses from_ne_bytes)",
                        "element types are enumerated through the public API from ElementType::ROOT (unreachable table rows are covered "
                        "by the theorems, which quantify over all type ids, but not by the correspondence run)"],
        "timeout": 3600,
    },
    "C02": {
        "property_module": "AutosarVerif.Properties.C02",
        "modules": ["AutosarVerif.Properties.C02"],
        "closure": ["AutosarVerif.Properties.C02", "AutosarVerif.Lemmas.Lexer", 'AutosarVerif.Lemmas.ParserTotal', 'AutosarVerif.Lemmas.ParserLines'],
        "scenario": "c02",
        "rule": "inputs: every string up to length 5 (thorough: 6) over the 16-symbol XML token alphabet `<>/?!-=\"'&;#x space newline A`; "
                "token strings after a valid xml header, inside a valid AUTOSAR root element and inside `<?xml … ?>`; a valid document, "
                "all of its truncations and 1-3 structure-aware mutations of it (delete/insert token/overwrite/cut/duplicate/truncate); "
                "random bytes and invalid UTF-8; byte-order-mark variants; nesting 10-300 deep in process and 20 000 / 200 000 deep in a "
                "child process. Each input through load_buffer strict and lenient and check_buffer with catch_unwind and a 10 s watchdog. "
                "`load <strict> <hex>` compares the tokenizer outcome (error kind and line, or none) with the Lean lexer model; parser "
                "errors are answered `*` by the harness (not modelled yet). Non-trivial = non-empty input, distinct request line.",
        "trusted_base": ["hand model of lexer.rs, tied by the correspondence run on tokenizer errors (kind and line)",
                         "parser.rs is not modelled: for it the run is an oracle search on the real code only"],
        "assumptions": ["stack exhaustion, allocation failure and real-time behaviour are outside the model; the watchdog limit is 10 s per input"],
        "timeout": 3600,
    },
    "C03": {
        "property_module": "AutosarVerif.Properties.C03",
        "modules": ["AutosarVerif.Properties.C03"],
        "closure": ['AutosarVerif.Properties.C03', 'AutosarVerif.Lemmas.World', 'AutosarVerif.Lemmas.WorldOps', 'AutosarVerif.Lemmas.WfOps', 'AutosarVerif.Lemmas.Reachable', 'AutosarVerif.Lemmas.FilesOps2', 'AutosarVerif.Lemmas.FileOps', 'AutosarVerif.Lemmas.Compat', 'AutosarVerif.Lemmas.IndexReach', 'AutosarVerif.Lemmas.IndexInv'],
        "scenario": "world",
        "scenario_args": ['--prop', 'C03'],
        "rule": 'operation histories on the real library (PROTOCOL.md): `reset`, a template build (packages from the name universe a a1 a10 a1b a2 pkg1 pkg10 b, nested packages, ELEMENTS with several kinds, mixed content, references to existing / dangling / future paths), then 20-60 (thorough up to 200) weighted random requests with mostly-valid and deliberately invalid arguments (stale handles, wrong kinds, bad positions, duplicates, descendants as destination), `dump` after every state-changing request; kinds basic / sort / copy / files. Every request is answered by the real library and by the Lean world model and compared verbatim (dumps include every parent field, attribute, value, comment, local file set, the whole path index and every key of the reverse reference map via hook H1); a history is cut at the first request kind the model does not cover (file-set operations, moves between models) — counted in coverage.correspondence. The direct oracle of the property is evaluated on the real library after every request; failing histories are shrunk. Non-trivial = distinct request line.' + " Oracle: " + 'parent/position/model of every reachable element, model-/element-/file-scoped DFS iterators with and without depth limit against the structural preorder, probes through every stale handle.',
        "trusted_base": ["hand model of element.rs / elementraw.rs / autosarmodel.rs (Model/World*.lean), tied by the correspondence run",
                         "harness/src/world.rs: interpreter, canonical dump, oracles, shrinking"],
        "assumptions": ["one model per history in the modelled part; sort comparator assumed a total preorder (C14)"],
        "timeout": 3600,
    },
    "C04": {
        "property_module": "AutosarVerif.Properties.C04",
        "modules": ["AutosarVerif.Properties.C04"],
        "closure": ['AutosarVerif.Properties.C04', 'AutosarVerif.Lemmas.World', 'AutosarVerif.Lemmas.WorldOps', 'AutosarVerif.Lemmas.IndexDefs', 'AutosarVerif.Lemmas.IndexTree', 'AutosarVerif.Lemmas.IdxFix', 'AutosarVerif.Lemmas.RemoveInternal', 'AutosarVerif.Lemmas.RangeSn', 'AutosarVerif.Lemmas.RenameEntries', 'AutosarVerif.Lemmas.IndexInv', 'AutosarVerif.Lemmas.IndexOps', 'AutosarVerif.Lemmas.IndexOps2', 'AutosarVerif.Lemmas.IndexOps3', 'AutosarVerif.Lemmas.IndexFileOps', 'AutosarVerif.Lemmas.IndexCData', 'AutosarVerif.Lemmas.IndexReach', 'AutosarVerif.Lemmas.IndexWitness', 'AutosarVerif.Lemmas.IndexBridge', 'AutosarVerif.Lemmas.NameWfCheck', 'AutosarVerif.Lemmas.NameWfReal'],
        "scenario": "world",
        "scenario_args": ['--prop', 'C04'],
        "rule": 'operation histories on the real library (PROTOCOL.md): `reset`, a template build (packages from the name universe a a1 a10 a1b a2 pkg1 pkg10 b, nested packages, ELEMENTS with several kinds, mixed content, references to existing / dangling / future paths), then 20-60 (thorough up to 200) weighted random requests with mostly-valid and deliberately invalid arguments (stale handles, wrong kinds, bad positions, duplicates, descendants as destination), `dump` after every state-changing request; kinds basic / sort / copy / files. Every request is answered by the real library and by the Lean world model and compared verbatim (dumps include every parent field, attribute, value, comment, local file set, the whole path index and every key of the reverse reference map via hook H1); a history is cut at the first request kind the model does not cover (file-set operations, moves between models) — counted in coverage.correspondence. The direct oracle of the property is evaluated on the real library after every request; failing histories are shrunk. Non-trivial = distinct request line.' + " Oracle: " + "index (hook H1) = set of (path, element) of reachable identifiable elements, no duplicate paths, lookups return that very element, path() = concatenation of ancestors' item names.",
        "trusted_base": ["hand model of element.rs / elementraw.rs / autosarmodel.rs (Model/World*.lean), tied by the correspondence run",
                         "harness/src/world.rs: interpreter, canonical dump, oracles, shrinking"],
        "assumptions": ["one model per history in the modelled part; sort comparator assumed a total preorder (C14)"],
        "timeout": 3600,
    },
    "C05": {
        "property_module": "AutosarVerif.Properties.C05",
        "modules": ["AutosarVerif.Properties.C05"],
        "closure": ['AutosarVerif.Properties.C05', 'AutosarVerif.Lemmas.World', 'AutosarVerif.Lemmas.WorldOps', 'AutosarVerif.Lemmas.IndexDefs', 'AutosarVerif.Lemmas.IndexTree', 'AutosarVerif.Lemmas.IdxFix', 'AutosarVerif.Lemmas.RemoveInternal', 'AutosarVerif.Lemmas.RangeSn', 'AutosarVerif.Lemmas.RenameEntries', 'AutosarVerif.Lemmas.IndexInv', 'AutosarVerif.Lemmas.IndexOps', 'AutosarVerif.Lemmas.IndexOps2', 'AutosarVerif.Lemmas.IndexOps3', 'AutosarVerif.Lemmas.IndexFileOps', 'AutosarVerif.Lemmas.IndexCData', 'AutosarVerif.Lemmas.IndexReach', 'AutosarVerif.Lemmas.IndexWitness', 'AutosarVerif.Lemmas.IndexBridge', 'AutosarVerif.Lemmas.NameWfCheck', 'AutosarVerif.Lemmas.NameWfReal', 'AutosarVerif.Lemmas.RefsDefs', 'AutosarVerif.Lemmas.RefsMap', 'AutosarVerif.Lemmas.RefsTree', 'AutosarVerif.Lemmas.RefsInv', 'AutosarVerif.Lemmas.RefsOpsA', 'AutosarVerif.Lemmas.RefsOpsB', 'AutosarVerif.Lemmas.RefsReach', 'AutosarVerif.Lemmas.RefsBridge', 'AutosarVerif.Lemmas.RenameRefsMap', 'AutosarVerif.Lemmas.RefWfCheck', 'AutosarVerif.Lemmas.RefWfReal', 'AutosarVerif.Lemmas.RefsWitness'],
        "scenario": "world",
        "scenario_args": ['--prop', 'C05'],
        "rule": 'operation histories on the real library (PROTOCOL.md): `reset`, a template build (packages from the name universe a a1 a10 a1b a2 pkg1 pkg10 b, nested packages, ELEMENTS with several kinds, mixed content, references to existing / dangling / future paths), then 20-60 (thorough up to 200) weighted random requests with mostly-valid and deliberately invalid arguments (stale handles, wrong kinds, bad positions, duplicates, descendants as destination), `dump` after every state-changing request; kinds basic / sort / copy / files. Every request is answered by the real library and by the Lean world model and compared verbatim (dumps include every parent field, attribute, value, comment, local file set, the whole path index and every key of the reverse reference map via hook H1); a history is cut at the first request kind the model does not cover (file-set operations, moves between models) — counted in coverage.correspondence. The direct oracle of the property is evaluated on the real library after every request; failing histories are shrunk. Non-trivial = distinct request line.' + " Oracle: " + 'every key of the reverse map (hook H1): upgradable reachable referrers = reachable reference elements with that text, each once; check_references = references whose get_reference_target fails.',
        "trusted_base": ["hand model of element.rs / elementraw.rs / autosarmodel.rs (Model/World*.lean), tied by the correspondence run",
                         "harness/src/world.rs: interpreter, canonical dump, oracles, shrinking"],
        "assumptions": ["one model per history in the modelled part; sort comparator assumed a total preorder (C14)"],
        "timeout": 3600,
    },
    "C06": {
        "property_module": "AutosarVerif.Properties.C06",
        "modules": ["AutosarVerif.Properties.C06"],
        "closure": ['AutosarVerif.Properties.C06', 'AutosarVerif.Lemmas.World', 'AutosarVerif.Lemmas.WorldOps'],
        "scenario": "world",
        "scenario_args": ['--prop', 'C06'],
        "rule": 'operation histories on the real library (PROTOCOL.md): `reset`, a template build (packages from the name universe a a1 a10 a1b a2 pkg1 pkg10 b, nested packages, ELEMENTS with several kinds, mixed content, references to existing / dangling / future paths), then 20-60 (thorough up to 200) weighted random requests with mostly-valid and deliberately invalid arguments (stale handles, wrong kinds, bad positions, duplicates, descendants as destination), `dump` after every state-changing request; kinds basic / sort / copy / files. Every request is answered by the real library and by the Lean world model and compared verbatim (dumps include every parent field, attribute, value, comment, local file set, the whole path index and every key of the reverse reference map via hook H1); a history is cut at the first request kind the model does not cover (file-set operations, moves between models) — counted in coverage.correspondence. The direct oracle of the property is evaluated on the real library after every request; failing histories are shrunk. Non-trivial = distinct request line.' + " Oracle: " + 'before/after every successful rename or move: references that designated the element or something below it designate the same element object, all others keep their text.',
        "trusted_base": ["hand model of element.rs / elementraw.rs / autosarmodel.rs (Model/World*.lean), tied by the correspondence run",
                         "harness/src/world.rs: interpreter, canonical dump, oracles, shrinking"],
        "assumptions": ["one model per history in the modelled part; sort comparator assumed a total preorder (C14)"],
        "timeout": 3600,
    },
    "C07": {
        "property_module": "AutosarVerif.Properties.C07",
        "modules": ["AutosarVerif.Properties.C07"],
        "closure": ['AutosarVerif.Properties.C07', 'AutosarVerif.Lemmas.Range'],
        "scenario": "world",
        "scenario_args": ['--prop', 'C07'],
        "extra_scenarios": [("edits", [])],
        "rule": 'operation histories on the real library (PROTOCOL.md) as for C03-C06: template build, 20-60 (thorough up to 200) weighted random requests incl. `create`/`named` with explicit positions (inside, at the ends of and next to the reported range), `range` and `valid` queries, `compat` / `setver` for every file against 3 target versions; every request is answered by the real library and by the Lean model and compared verbatim; ' + "scenario `edits` (direct oracle on the real library): per case a version, a parent element type reached from the root through the editing API and a list of calls (create / create-at every position of the range and its neighbours / named / copy also across versions and from a parent of another type / move / remove / set data / set and remove attribute, values from and outside the value spaces); after every call an independent reading of the specification checks order, multiplicity, permitted content and values, and the serialized file is reloaded leniently; `check_range` calls compare the reported range and the allowed list with what can actually be created.",
        "trusted_base": ["hand model of calc_element_insert_range / create_sub_element (Model/WorldOps.lean), tied by the correspondence run",
                         "harness/src/world.rs (interpreter), harness/src/edits.rs (independent reading of the specification, oracles, shrinking)"],
        "assumptions": ["CHOICE groups and groups nested in sequences: correspondence and oracle only"],
        "timeout": 3600,
    },
    "C17": {
        "property_module": "AutosarVerif.Properties.C17",
        "modules": ["AutosarVerif.Properties.C17"],
        "closure": ['AutosarVerif.Properties.C17', 'AutosarVerif.Lemmas.Compat'],
        "scenario": "world",
        "scenario_args": ['--prop', 'C17'],
        "extra_scenarios": [("edits", [])],
        "rule": 'operation histories on the real library (PROTOCOL.md) as for C03-C06: template build, 20-60 (thorough up to 200) weighted random requests incl. `create`/`named` with explicit positions (inside, at the ends of and next to the reported range), `range` and `valid` queries, `compat` / `setver` for every file against 3 target versions; every request is answered by the real library and by the Lean model and compared verbatim; ' + "scenario `edits` (direct oracle on the real library): documents built through the editing API and purpose-built documents around elements, attributes and enumeration values with partial version masks, single- and two-file models, every source/target version pair of the case: (A) the check lists nothing <=> the text relabelled with the target version loads strictly, (B) the mask contains the target <=> nothing listed, (C) set_version succeeds <=> nothing listed, changes no content, and the re-serialized file loads strictly.",
        "trusted_base": ["hand model of check_version_compatibility / recalc_element_type / set_version (Model/Compat.lean), tied by the correspondence run",
                         "harness/src/world.rs (interpreter), harness/src/edits.rs (oracles A, B, C, shrinking)"],
        "assumptions": ["the strict loader has no Lean model at element level: 'passes strict validation' is decided on the library"],
        "timeout": 3600,
    },
    "C11": {
        "property_module": "AutosarVerif.Properties.C11",
        "modules": ["AutosarVerif.Properties.C11"],
        "closure": ['AutosarVerif.Properties.C11', 'AutosarVerif.Lemmas.WorldOps', 'AutosarVerif.Lemmas.FileOps', 'AutosarVerif.Lemmas.Compat', 'AutosarVerif.Lemmas.StepFrame', 'AutosarVerif.Lemmas.Reachable'],
        "scenario": "world",
        "scenario_args": ['--prop', 'C11'],
        "extra_scenarios": [("merge", [])],
        "rule": 'operation histories on the real library (PROTOCOL.md): `reset`, a template build (packages from the name universe a a1 a10 a1b a2 pkg1 pkg10 b, nested packages, ELEMENTS with several kinds, mixed content, references to existing / dangling / future paths), then 20-60 (thorough up to 200) weighted random requests with mostly-valid and deliberately invalid arguments (stale handles, wrong kinds, bad positions, duplicates, descendants as destination), `dump` after every state-changing request; kinds basic / sort / copy / files. Every request is answered by the real library and by the Lean world model and compared verbatim (dumps include every parent field, attribute, value, comment, local file set, the whole path index and every key of the reverse reference map via hook H1); a history is cut at the first request kind the model does not cover (file-set operations, moves between models) — counted in coverage.correspondence. The direct oracle of the property is evaluated on the real library after every request; failing histories are shrunk. Non-trivial = distinct request line.' + " Oracle: " + 'dump before = dump after for every state-changing request that answers an error.',
        "trusted_base": ["hand model of element.rs / elementraw.rs / autosarmodel.rs (Model/World*.lean), tied by the correspondence run",
                         "harness/src/world.rs: interpreter, canonical dump, oracles, shrinking"],
        "assumptions": ["one model per history in the modelled part; sort comparator assumed a total preorder (C14)"],
        "timeout": 3600,
    },
    "C01": {
        "property_module": "AutosarVerif.Properties.C01",
        "modules": ["AutosarVerif.Properties.C01"],
        "closure": ['AutosarVerif.Properties.C01', 'AutosarVerif.Lemmas.CData', 'AutosarVerif.Lemmas.Lexer', 'AutosarVerif.Lemmas.ParserMonad'],
        "scenario": 'docs',
        "scenario_args": ['--prop', 'C01'],
        "rule": "documents: (1) specification walk through the editing API per version (quick: 3 versions by seed + LATEST; thorough: all 21), serialized by the library, and random slices of it; (2) grammar-directed documents written as text by the scenario's own writer (all five value kinds, mixed content, entities and numeric references in values and attributes, comments in every position, both quote styles with TAB/CR/LF, white space, BOM); (3) 1-3 injected defects of 20 documented classes per document, each verified against the specification API. Every document through strict and lenient loading. Oracles on the real library: load-serialize-load fixpoint (structure and bytes), independent XML reader vs loaded model, the three strict/lenient agreement rules, no defect class accepted by strict loading. Non-trivial = distinct document (request line carries kind and hash).",
        "trusted_base": ['hand models of escape_text / unescape_string / lexer.rs / parse_character_data, tied by the C20 and C02 correspondence runs', 'harness/src/docs.rs: generators, independent XML reader, structural comparison'],
        "assumptions": ['the element-level parser and serializer are exercised on the real library only (no Lean model yet)'],
        "timeout": 3600,
    },
    "C08": {
        "property_module": "AutosarVerif.Properties.C08",
        "modules": ["AutosarVerif.Properties.C08"],
        "closure": ['AutosarVerif.Properties.C08', 'AutosarVerif.Lemmas.ParserMonad'],
        "scenario": 'docs',
        "scenario_args": ['--prop', 'C08'],
        "rule": "documents: (1) specification walk through the editing API per version (quick: 3 versions by seed + LATEST; thorough: all 21), serialized by the library, and random slices of it; (2) grammar-directed documents written as text by the scenario's own writer (all five value kinds, mixed content, entities and numeric references in values and attributes, comments in every position, both quote styles with TAB/CR/LF, white space, BOM); (3) 1-3 injected defects of 20 documented classes per document, each verified against the specification API. Every document through strict and lenient loading. Oracles on the real library: load-serialize-load fixpoint (structure and bytes), independent XML reader vs loaded model, the three strict/lenient agreement rules, no defect class accepted by strict loading. Non-trivial = distinct document (request line carries kind and hash).",
        "trusted_base": ['the parser monad (optional_error as the only reader of `strict`) is a reading of parser.rs checked by inspection and by the agreement oracle on the real library', 'harness/src/docs.rs'],
        "assumptions": ['element-level parsing is not written in the monad yet'],
        "timeout": 3600,
    },
    "C10": {
        "property_module": "AutosarVerif.Properties.C10",
        "modules": ["AutosarVerif.Properties.C10"],
        "closure": ['AutosarVerif.Properties.C10', 'AutosarVerif.Lemmas.Files', 'AutosarVerif.Lemmas.FileOps', 'AutosarVerif.Lemmas.WfOps', 'AutosarVerif.Lemmas.Reachable', 'AutosarVerif.Lemmas.FilesOps2', 'AutosarVerif.Lemmas.Compat'],
        "scenario": 'world',
        "scenario_args": ['--prop', 'C10', '--kind', 'files'],
        "extra_scenarios": [("merge", [])],
        "rule": "histories of kind `files` (2-4 files; add_to_file / remove_from_file / remove_file mixed with editing requests) as described for the world scenario; oracle on the real library: local sets within the parent's effective set within the model's files, every reachable element in some file, every file's serialize() loads on its own, remove_file removes exactly the elements of that file alone with their index entries and leaves other files' text unchanged. Model comparison up to the first file-set request of each history.",
        "trusted_base": ['hand model of element.rs / elementraw.rs / autosarmodel.rs (Model/World*.lean), tied by the correspondence run', 'harness/src/world.rs: interpreter, canonical dump, oracles, shrinking'],
        "assumptions": ['file-set operations are not in the Lean model yet'],
        "timeout": 3600,
    },
    "C12": {
        "property_module": "AutosarVerif.Properties.C12",
        "modules": ["AutosarVerif.Properties.C12"],
        "closure": ['AutosarVerif.Properties.C12', 'AutosarVerif.Lemmas.Lexer', 'AutosarVerif.Lemmas.WorldOps'],
        "scenario": 'world',
        "scenario_args": ['--prop', 'C12'],
        "extra_scenarios": [("conc", []), ("edits", [])],
        "rule": 'all history kinds of the world scenario with catch_unwind around every request and a per-history watchdog; oracle: no answer is `panic`, `timeout` or `err ParentElementLocked`; handles are drawn from live, removed and foreign objects.',
        "trusted_base": ['hand model of element.rs / elementraw.rs / autosarmodel.rs (Model/World*.lean), tied by the correspondence run', 'harness/src/world.rs: interpreter, canonical dump, oracles, shrinking'],
        "assumptions": ['stack depth and real-time behaviour are outside the model'],
        "timeout": 3600,
    },
    "C13": {
        "property_module": "AutosarVerif.Properties.C13",
        "modules": ["AutosarVerif.Properties.C13"],
        "closure": ['AutosarVerif.Properties.C13', 'AutosarVerif.Lemmas.Files', 'AutosarVerif.Lemmas.WorldOps'],
        "scenario": 'world',
        "scenario_args": ['--prop', 'C13', '--kind', 'copy'],
        "rule": 'histories of kind `copy` (deep copies within a parent, to other parents, into a second model with a file of another version, then edits on both sides; duplicate()); oracle: serialization of copy = source up to the name suffix, copied identifiables/references found in the destination, source unchanged, independence after edits, duplicate() per-file texts equal.',
        "trusted_base": ['hand model of element.rs / elementraw.rs / autosarmodel.rs (Model/World*.lean), tied by the correspondence run', 'harness/src/world.rs: interpreter, canonical dump, oracles, shrinking'],
        "assumptions": ['copies into another model are compared with the Lean model only for the same-model part'],
        "timeout": 3600,
    },
    "C14": {
        "property_module": "AutosarVerif.Properties.C14",
        "modules": ["AutosarVerif.Properties.C14"],
        "closure": ['AutosarVerif.Properties.C14', 'AutosarVerif.Lemmas.Sort'],
        "scenario": 'world',
        "scenario_args": ['--prop', 'C14', '--kind', 'sort'],
        "rule": 'histories of kind `sort` (sibling sets with names a2 a10 a1b a1, INDEX children, equal names in different parents, BSW values keyed by DEFINITION-REF, ordered containers; then sort); oracle: multiset of children, attributes, comments, index and reference map unchanged, sort twice = once, same siblings inserted in another order sort to the same serialization. `sort` requests are answered by the Lean model (sortNode) and compared.',
        "trusted_base": ['hand model of element.rs / elementraw.rs / autosarmodel.rs (Model/World*.lean), tied by the correspondence run', 'harness/src/world.rs: interpreter, canonical dump, oracles, shrinking'],
        "assumptions": ['Element ordering assumed a total preorder (proved consequences need it)'],
        "timeout": 3600,
    },
    "C09": {
        "property_module": "AutosarVerif.Properties.C09",
        "modules": ["AutosarVerif.Properties.C09"],
        "closure": ['AutosarVerif.Properties.C09', 'AutosarVerif.Lemmas.Files', 'AutosarVerif.Lemmas.Merge'],
        "scenario": 'merge',
        "scenario_args": [],
        "rule": "random master models built through the API, split over 2-4 files at splittable points (shared and exclusive packages, permuted siblings, mixed versions, BSW containers), documents written by the scenario's own writer; ALL load orders; oracles: union = master (after sort), attribution = split, per-file serialize/reload, order independence, conflicting files rejected with no effect, remove_file exactness.",
        "trusted_base": ['harness/src/merge.rs (generator, own writer, oracles)', 'hand model of parser.rs and of merge_element (Model/Parser.lean, Model/Merge.lean), tied by the load requests of every load order'],
        "assumptions": ['theorems about the merge model are limited to what Properties/C09.lean states; union / attribution / order independence are decided by the oracle'],
        "timeout": 3600,
    },
    "C15": {
        "compare_with_model": False,
        "property_module": "AutosarVerif.Properties.C15",
        "modules": ["AutosarVerif.Properties.C15"],
        "closure": ['AutosarVerif.Properties.C15', 'AutosarVerif.Lemmas.LocksOrder'],
        "scenario": "conc",
        "scenario_args": [],
        "rule": 'fixture: a model with 2 files, packages, elements and references; 25 operations (readers: serialize a/b, path, elements_dfs, check_references, lookups, identifiable_elements; writers: create_named, remove, set_item_name, move, set_character_data, set_reference_target, set_comment, set_attribute, create_file, remove_file, load_buffer, sort). Lock programs of every operation are recorded single-threaded (hook H2 record mode). Pairs (quick: 118 seeded pairs incl. every writer x writer on shared data; thorough: all 442 ordered pairs and 40 triples) run under the deterministic scheduler over all interleavings with <= 2 (thorough 3) preemptions plus random schedules; oracle C15: the scheduler never finds all threads blocked; oracle C16: return values and final canonical dump equal one of the serial orders, ParentElementLocked means no effect, invariants hold at the end; deadlocking pairs are re-run on two real threads in a child process with a watchdog. Non-trivial = distinct (pair, schedule).',
        "trusted_base": ["hook H2 (autosar-data/src/verif_lock.rs): lock shim with record mode and a deterministic cooperative scheduler; its lock model (readers/writer, waiting writer blocks new readers, timed try = immediate) is the same as Model/Locks.lean",
                         "harness/src/conc.rs: fixture, operation set, schedule enumeration, serial-order comparison, real-thread confirmation in child processes"],
        "assumptions": ["interleavings are explored at lock-acquisition granularity up to the stated preemption bound; OS scheduling, parking_lot internals and the 10 ms time-out are outside the model"],
        "timeout": 3600,
    },
    "C16": {
        "compare_with_model": False,
        "property_module": "AutosarVerif.Properties.C16",
        "modules": ["AutosarVerif.Properties.C16"],
        "closure": ['AutosarVerif.Properties.C16', 'AutosarVerif.Lemmas.LocksOrder'],
        "scenario": "conc",
        "scenario_args": [],
        "rule": 'fixture: a model with 2 files, packages, elements and references; 25 operations (readers: serialize a/b, path, elements_dfs, check_references, lookups, identifiable_elements; writers: create_named, remove, set_item_name, move, set_character_data, set_reference_target, set_comment, set_attribute, create_file, remove_file, load_buffer, sort). Lock programs of every operation are recorded single-threaded (hook H2 record mode). Pairs (quick: 118 seeded pairs incl. every writer x writer on shared data; thorough: all 442 ordered pairs and 40 triples) run under the deterministic scheduler over all interleavings with <= 2 (thorough 3) preemptions plus random schedules; oracle C15: the scheduler never finds all threads blocked; oracle C16: return values and final canonical dump equal one of the serial orders, ParentElementLocked means no effect, invariants hold at the end; deadlocking pairs are re-run on two real threads in a child process with a watchdog. Non-trivial = distinct (pair, schedule).',
        "trusted_base": ["hook H2 (autosar-data/src/verif_lock.rs): lock shim with record mode and a deterministic cooperative scheduler; its lock model (readers/writer, waiting writer blocks new readers, timed try = immediate) is the same as Model/Locks.lean",
                         "harness/src/conc.rs: fixture, operation set, schedule enumeration, serial-order comparison, real-thread confirmation in child processes"],
        "assumptions": ["interleavings are explored at lock-acquisition granularity up to the stated preemption bound; OS scheduling, parking_lot internals and the 10 ms time-out are outside the model"],
        "timeout": 3600,
    },
    "C20": {
        "property_module": "AutosarVerif.Properties.C20",
        "modules": ["AutosarVerif.Properties.C20"],
        "closure": ["AutosarVerif.Properties.C20", "AutosarVerif.Lemmas.CData"],
        "scenario": "c20",
        "rule": "texts: every string up to length 4 (thorough: 5) over the alphabet of the numeric lexical forms, boundary values of every "
                "integer width in every radix form with sign/prefix variants, special float texts (INF, NaN, subnormal and overflow "
                "boundaries, halfway cases), random decimal/scientific texts up to 40 digits and random u64 in every radix; each text "
                "through parse_integer for 12 integer types, parse_float, parse_bool and (where XML-safe) through strict loading of a "
                "FLOAT and an UNSIGNED-INTEGER element. Round trips through the real serializer and loader: u64 (bit lengths, powers of "
                "ten, random), f64 (every exponent with extreme mantissas, subnormals, infinities, NaN, -0, random bits; the model parses "
                "the text std printed with exact arithmetic, the oracle demands bit equality), strings built from every escapable "
                "character, multi-byte characters and entity-like fragments, and texts with character references / malformed "
                "entities. Non-trivial = distinct request line (the parse_bool probes on non-boolean texts are not counted).",
        "trusted_base": ["hand model of chardata.rs and of the std functions it calls (from_str_radix, u64::from_str/to_string, "
                         "str::parse::<f64>, u64 as f64), tied by the correspondence run",
                         "f64::to_string is not modelled: its output is checked per value (printed text parses back to the same bits "
                         "under the model's exact arithmetic)"],
        "assumptions": ["std's decimal-to-binary64 conversion is correctly rounded (documented by std; compared with the model's exact "
                        "round-to-nearest-even on every float text of the run)",
                        "NaN payloads are not compared (any NaN equals any NaN)"],
        "timeout": 3600,
    },
    "C19": {
        "property_module": "AutosarVerif.Properties.C19",
        "modules": ["AutosarVerif.Properties.C19"],
        "closure": lambda: ["AutosarVerif.Properties.C19", "AutosarVerif.Lemmas.Regex"] + gen_modules(["DfaCert_", "DfaAll"]),
        "scenario": "c19",
        "shape_parts": ["dfa"],
        "classify": c19_classify,
        "search": c19_search,
        "rule": "per validator k (all 28): a derivative automaton of the published regex is built by the harness's own test generator; "
                "tests = transition cover (access string of every automaton state x every representative byte; thorough: all 256 bytes) x "
                "characterising suffixes (a shortest accepted continuation of the successor, of the sibling transitions and a sample of all "
                "states'), all strings up to the stated length over the regex's reduced alphabet (class boundaries and neighbours), members "
                "from random walks with five one-edit neighbours each, random bytes / invalid UTF-8. `validate k s` compares the real "
                "check_fn with the Lean regex semantics (matchD, proved equal to Matches); `dfa k s` compares it with the regenerated "
                "table. Non-trivial = non-empty string, distinct request line.",
        "trusted_base": ["translator/gen.py (copies REGEX_k_TABLE rows, the matches! accepting set and the Pattern regex strings; checks "
                         "the loop of each table-driven validator against the modelled shape)",
                         "Rx.parseRegex: the reading of the regex dialect (DESIGN.md §8 C19) is part of the specification",
                         "hand-written validators: tied by the conformance run only (and by the transcription theorems of "
                         "Properties/C19Hand.lean where present)"],
        "assumptions": ["regex dialect: whole-string byte match, '.' excludes 0x0A, \\d = [0-9]"],
        "timeout": 3600,
    },
}
