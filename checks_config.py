"""Per-property configuration of ./check: Lean modules (proof closure), harness scenario, evidence texts."""
import glob
import os

ROOT = os.path.dirname(os.path.abspath(__file__))
GEN = os.path.join(ROOT, "lean", "AutosarVerif", "Gen")


def gen_modules(prefixes):
    out = []
    for p in sorted(glob.glob(os.path.join(GEN, "*.lean"))):
        name = os.path.basename(p)[:-5]
        if any(name.startswith(x) for x in prefixes):
            out.append("AutosarVerif.Gen." + name)
    return out


PROPS = {
    "C18": {
        "property_module": "AutosarVerif.Properties.C18",
        "modules": ["AutosarVerif.Properties.C18", "AutosarVerif.Lemmas.SpecCache"],
        "closure": lambda: ["AutosarVerif.Properties.C18", "AutosarVerif.Lemmas.Hash", "AutosarVerif.Lemmas.Spec",
                            "AutosarVerif.Lemmas.Versions", "AutosarVerif.Lemmas.SpecCache"]
        + gen_modules(["NamesElemProof", "NamesElemAll", "NamesAttrProof", "NamesAttrAll", "NamesEnumProof", "NamesEnumAll",
                       "Versions", "SpecWf"]),
        "scenario": "c18",
        "shape_parts": ["names", "hash"],
        "rule": "requests = to_str/from_bytes/from_str of every item of the three name enums, one-edit neighbours of members "
                "(case change, truncation, extension, swapped separator, high bit, deletion, duplication, transposition), empty / long / "
                "non-UTF-8 / random strings; every version value, file name and their neighbours, from_val on bits and non-bits; for every "
                "element type reachable from the root: type_info, the sub-element listing, find_sub_element for listed names per version bit "
                "(and with a mask outside the listed one), index-path queries (mask, multiplicity, container mode, common group), "
                "attribute listing and lookup; reference-type x identifiable-type DEST proposals. Each request is answered by the real "
                "library and by the Lean model and compared; non-trivial = a request line not seen before in this run (exact duplicates "
                "are not counted), excluding the empty-string probes.",
        "trusted_base": ["translator/gen.py (copies STRING_TABLE, DISPLACEMENTS, discriminants, hash constants, version arms and the seven "
                         "specification arrays into Lean; validates declared lengths and index ranges; shape fingerprints of from_bytes, "
                         "to_str and hashfunc)",
                         "harness/driver correspondence for the hand-modelled algorithms (hashfunc, from_bytes, find_sub_element, "
                         "get_sub_element_spec, find_common_group, find_attribute_spec, reference_dest_value, verify_reference_dest, "
                         "SubelemDefinitionsIter)"],
        "assumptions": ["little-endian host (hashfunc uses from_ne_bytes)",
                        "element types are enumerated through the public API from ElementType::ROOT (unreachable table rows are covered "
                        "by the theorems, which quantify over all type ids, but not by the correspondence run)"],
        "timeout": 3600,
    },
}
