#!/usr/bin/env python3
"""debug helper: diff impl.txt / model.txt of a harness output directory with the rules of `check` (history cuts, wildcards)"""
import importlib.machinery, importlib.util, sys, collections
l = importlib.machinery.SourceFileLoader('chk', '/verif/check')
spec = importlib.util.spec_from_loader('chk', l)
chk = importlib.util.module_from_spec(spec)
l.exec_module(chk)
d, n = chk.diff_streams(sys.argv[1])
print("disagreements", n, chk.DIFF_STATS)
c = collections.Counter(x["req"].split()[0] for x in d)
print(c)
for x in d[: int(sys.argv[2]) if len(sys.argv) > 2 else 5]:
    a, b = x["impl"], x["model"]
    q = 0
    while q < min(len(a), len(b)) and a[q] == b[q]:
        q += 1
    print(x["line"], x["req"][:100]); print("  impl  ..", a[max(0, q - 160):q + 160]); print("  model ..", b[max(0, q - 160):q + 160])
